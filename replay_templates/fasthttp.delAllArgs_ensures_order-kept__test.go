package fasthttp

// Replay template (C29): deleting one header name must not change the order of the values under another name.

import "testing"

func TestGocvReplayDelReordersOtherHeaders(t *testing.T) {
	var h ResponseHeader
	h.Add("X-A", "1")
	h.Add("X-B", "1")
	h.Add("X-B", "2")
	h.Del("X-A")
	vs := h.PeekAll("X-B")
	if len(vs) != 2 || string(vs[0]) != "1" || string(vs[1]) != "2" {
		t.Fatalf("GOCV-REPRO Add(X-A,1) Add(X-B,1) Add(X-B,2) Del(X-A): PeekAll(X-B) = %q, want [\"1\" \"2\"]", vs)
	}
	var r RequestHeader
	r.Add("X-A", "1")
	r.Add("X-B", "1")
	r.Add("X-B", "2")
	r.Del("X-A")
	vs = r.PeekAll("X-B")
	if len(vs) != 2 || string(vs[0]) != "1" || string(vs[1]) != "2" {
		t.Fatalf("GOCV-REPRO request header: PeekAll(X-B) = %q after Del(X-A), want [\"1\" \"2\"]", vs)
	}
}
