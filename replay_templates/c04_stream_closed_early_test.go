package fasthttp

// Replay template (C04): a streamed response body is closed before its end. The connection must not go back
// to the pool with the rest of the body on it: those bytes would be parsed as the response to the next request.

import (
	"bufio"
	"net"
	"strings"
	"testing"
	"time"

	"github.com/valyala/fasthttp/fasthttputil"
)

func TestGocvReplayStreamClosedEarlyCrossTalk(t *testing.T) {
	ln := fasthttputil.NewInmemoryListener()
	defer ln.Close()
	evil := "HTTP/1.1 200 OK\r\nContent-Length: 5\r\n\r\nEVIL!"
	go func() {
		for n := 0; ; n++ {
			c, err := ln.Accept()
			if err != nil {
				return
			}
			go func(c net.Conn, first bool) {
				defer c.Close()
				br := bufio.NewReader(c)
				var req Request
				if err := req.Read(br); err != nil {
					return
				}
				if !first {
					// a fresh connection gets an honest answer
					_, _ = c.Write([]byte("HTTP/1.1 200 OK\r\nContent-Length: 2\r\n\r\nOK"))
					return
				}
				head := "HTTP/1.1 200 OK\r\nContent-Length: "
				// pad so that the client's 4096-byte read buffer ends exactly where `evil` starts
				bodyLen := 0
				var hdr string
				for pad := 3000; pad < 4096; pad++ {
					bodyLen = pad + len(evil)
					hdr = head + string(AppendUint(nil, bodyLen)) + "\r\n\r\n"
					if len(hdr)+pad == 4096 {
						break
					}
				}
				pad := 4096 - len(hdr)
				_, _ = c.Write([]byte(hdr + strings.Repeat("x", pad) + evil))
				// never answer the second request: anything the client gets for it is cross-talk
				var req2 Request
				_ = req2.Read(br)
				time.Sleep(2 * time.Second)
			}(c, n == 0)
		}
	}()
	hc := &HostClient{
		Addr:                "a",
		Dial:                func(addr string) (net.Conn, error) { return ln.Dial() },
		StreamResponseBody:  true,
		MaxResponseBodySize: 10,
		MaxConns:            1,
		ReadTimeout:         time.Second,
	}
	var req Request
	var resp Response
	req.SetRequestURI("http://a/one")
	if err := hc.Do(&req, &resp); err != nil {
		t.Skipf("first request failed: %v", err)
	}
	buf := make([]byte, 10)
	if bs := resp.BodyStream(); bs != nil {
		_, _ = bs.Read(buf)
	}
	_ = resp.CloseBodyStream() // closed before the end of the body

	var req2 Request
	var resp2 Response
	req2.Header.SetMethod(MethodPost) // not idempotent: no silent retry on a fresh connection
	req2.SetRequestURI("http://a/two")
	resp2.StreamBody = false
	err := hc.Do(&req2, &resp2)
	if err == nil && string(resp2.Body()) == "EVIL!" {
		t.Fatalf("GOCV-REPRO the call for /two returned bytes of the response to /one: status %d body %q", resp2.StatusCode(), resp2.Body())
	}
}
