package fasthttp

// Replay for the lemma byteTables (C32): every lookup table is compared, for every byte value, with a predicate
// written independently of bytesconv_table_gen.go (RFC 3986 unreserved, RFC 9110 tchar / field-vchar).

import (
	"strings"
	"testing"
)

func TestGocvReplayByteTables(t *testing.T) {
	alpha := func(c int) bool { return (c >= 'A' && c <= 'Z') || (c >= 'a' && c <= 'z') }
	digit := func(c int) bool { return c >= '0' && c <= '9' }
	unreserved := func(c int) bool { return alpha(c) || digit(c) || strings.ContainsRune("-_.~", rune(c)) && c < 128 }
	tchar := func(c int) bool { return c < 128 && (alpha(c) || digit(c) || strings.ContainsRune("!#$%&'*+-.^_`|~", rune(c))) }
	pathsafe := func(c int) bool { return unreserved(c) || (c < 128 && strings.ContainsRune("$&+,/:;=@", rune(c))) }
	vchar := func(c int) bool { return (c >= 33 && c <= 126) || c == ' ' || c == '\t' || c >= 128 }
	hexval := func(c int) int {
		switch {
		case digit(c):
			return c - '0'
		case c >= 'a' && c <= 'f':
			return c - 'a' + 10
		case c >= 'A' && c <= 'F':
			return c - 'A' + 10
		}
		return 16
	}
	b2i := func(b bool) int {
		if b {
			return 1
		}
		return 0
	}
	check := func(name, table string, n int, want func(c int) int) {
		if len(table) != n {
			t.Errorf("GOCV-REPRO %s has %d entries, want %d", name, len(table), n)
			return
		}
		for c := 0; c < n; c++ {
			if int(table[c]) != want(c) {
				t.Errorf("GOCV-REPRO %s[%d (%q)] = %d, the defining predicate gives %d", name, c, rune(c), table[c], want(c))
			}
		}
	}
	check("hex2intTable", hex2intTable, 256, hexval)
	check("toLowerTable", toLowerTable, 256, func(c int) int {
		if c >= 'A' && c <= 'Z' {
			return c + 32
		}
		return c
	})
	check("toUpperTable", toUpperTable, 256, func(c int) int {
		if c >= 'a' && c <= 'z' {
			return c - 32
		}
		return c
	})
	check("quotedArgShouldEscapeTable", quotedArgShouldEscapeTable, 256, func(c int) int { return b2i(!unreserved(c)) })
	check("quotedPathShouldEscapeTable", quotedPathShouldEscapeTable, 256, func(c int) int { return b2i(!pathsafe(c)) })
	check("validHeaderFieldByteTable", validHeaderFieldByteTable, 128, func(c int) int { return b2i(tchar(c)) })
	check("validHeaderValueByteTable", validHeaderValueByteTable, 256, func(c int) int { return b2i(vchar(c)) })
	check("validMethodValueByteTable", validMethodValueByteTable, 256, func(c int) int { return b2i(tchar(c)) })
	for k := 0; k < 16; k++ {
		if hexval(int(upperhex[k])) != k || hexval(int(lowerhex[k])) != k {
			t.Errorf("GOCV-REPRO hex digit strings: digit %d is %q / %q", k, upperhex[k], lowerhex[k])
		}
	}
}
