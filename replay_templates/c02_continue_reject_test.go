package fasthttp

// Replay template (C02): a request whose `Expect: 100-continue` was rejected by ContinueHandler; the
// client sends the body anyway (allowed by RFC 9110 10.1.1). The body bytes must not be parsed as a request.

import (
	"bufio"
	"strings"
	"sync/atomic"
	"testing"
	"time"

	"github.com/valyala/fasthttp/fasthttputil"
)

func TestGocvReplayContinueRejectBodyBecomesRequest(t *testing.T) {
	var smuggled atomic.Int32
	s := &Server{
		Handler: func(ctx *RequestCtx) {
			if string(ctx.Path()) == "/smuggled" {
				smuggled.Add(1)
			}
		},
		ContinueHandler: func(h *RequestHeader) bool { return false },
	}
	ln := fasthttputil.NewInmemoryListener()
	go s.Serve(ln) //nolint:errcheck
	defer ln.Close()
	c, err := ln.Dial()
	if err != nil {
		t.Fatal(err)
	}
	defer c.Close()
	_ = c.SetDeadline(time.Now().Add(3 * time.Second))
	body := "GET /smuggled HTTP/1.1\r\nHost: a\r\n\r\n"
	req := "POST /one HTTP/1.1\r\nHost: a\r\nExpect: 100-continue\r\nContent-Length: " + itoa(len(body)) + "\r\n\r\n"
	br := bufio.NewReader(c)
	if _, err = c.Write([]byte(req)); err != nil {
		t.Fatal(err)
	}
	var r1 Response
	if err = r1.Read(br); err != nil {
		t.Fatalf("response 1: %v", err)
	}
	// the client sends the body it announced
	_, _ = c.Write([]byte(body))
	var r2 Response
	_ = r2.Read(br)
	time.Sleep(50 * time.Millisecond)
	if smuggled.Load() != 0 {
		t.Fatalf("GOCV-REPRO the %d body bytes of the rejected request were dispatched as a request (%s)", len(body), strings.TrimSpace(r2.String()[:min(40, len(r2.String()))]))
	}
}

func itoa(n int) string { return string(AppendUint(nil, n)) }
