package fasthttp

// Replay template (C09, known finding): a response head whose blank line is a bare LF is only accepted when a
// CRLFCRLF happens to follow it later in the stream; alone it waits for more input.

import (
	"bufio"
	"strings"
	"testing"
)

func TestGocvReplayResponseHeadDependsOnFollowingBytes(t *testing.T) {
	head := "HTTP/1.1 200 OK\r\nContent-Length: 0\n\n"
	var h1 ResponseHeader
	err1 := h1.Read(bufio.NewReader(strings.NewReader(head)))
	var h2 ResponseHeader
	err2 := h2.Read(bufio.NewReader(strings.NewReader(head + "HTTP/1.1 204 No Content\r\nServer: x\r\n\r\n")))
	if (err1 == nil) != (err2 == nil) {
		t.Fatalf("GOCV-REPRO the head %q alone gives err=%v; followed by another message it gives err=%v (status %d): acceptance depends on the bytes after the blank line", head, err1, err2, h2.StatusCode())
	}
}
