package fasthttp

// Replay template for obligation Server.serveConnCounted#loop1.inv[continue].preserved (C11):
// a per-request decision (ContinueHandler rejected the body of request 1) must not change how
// request 2 on the same connection is dispatched.

import (
	"bufio"
	"sync/atomic"
	"testing"
	"time"

	"github.com/valyala/fasthttp/fasthttputil"
)

func TestGocvReplayContinueSticky(t *testing.T) {
	var calls atomic.Int32
	s := &Server{
		Handler:         func(ctx *RequestCtx) { calls.Add(1); ctx.SetBodyString("handled") },
		ContinueHandler: func(h *RequestHeader) bool { return false },
	}
	ln := fasthttputil.NewInmemoryListener()
	go s.Serve(ln) //nolint:errcheck
	defer ln.Close()
	c, err := ln.Dial()
	if err != nil {
		t.Fatal(err)
	}
	defer c.Close()
	_ = c.SetDeadline(time.Now().Add(5 * time.Second))
	br := bufio.NewReader(c)
	if _, err = c.Write([]byte("POST /one HTTP/1.1\r\nHost: a\r\nExpect: 100-continue\r\nContent-Length: 5\r\n\r\n")); err != nil {
		t.Fatal(err)
	}
	var r1 Response
	if err = r1.Read(br); err != nil {
		t.Fatalf("response 1: %v", err)
	}
	if r1.StatusCode() != StatusExpectationFailed {
		t.Skipf("unexpected status for the rejected request: %d", r1.StatusCode())
	}
	if r1.ConnectionClose() {
		t.Skip("server closes after the rejection; nothing to observe")
	}
	if _, err = c.Write([]byte("GET /two HTTP/1.1\r\nHost: a\r\n\r\n")); err != nil {
		t.Skipf("connection closed: %v", err)
	}
	var r2 Response
	if err = r2.Read(br); err != nil {
		t.Skipf("connection closed: %v", err)
	}
	if calls.Load() != 1 || string(r2.Body()) != "handled" {
		t.Fatalf("GOCV-REPRO request 2 was answered with status %d body %q and the handler ran %d times (want 1): "+
			"the rejection of request 1 leaked into request 2", r2.StatusCode(), r2.Body(), calls.Load())
	}
}
