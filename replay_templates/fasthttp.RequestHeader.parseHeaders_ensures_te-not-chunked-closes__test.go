package fasthttp

// Replay template (C01): a request whose Transfer-Encoding is not chunked (a lone `identity` is tolerated) has
// ambiguous framing and must not be followed by another request on the same connection.

import (
	"bufio"
	"strings"
	"testing"
)

func TestGocvReplayTransferEncodingIdentity(t *testing.T) {
	in := "POST / HTTP/1.1\r\nHost: a\r\nTransfer-Encoding: identity\r\n\r\nGET /smuggled HTTP/1.1\r\nHost: a\r\n\r\n"
	br := bufio.NewReader(strings.NewReader(in))
	var r Request
	err := r.Read(br)
	if err == nil && !r.Header.ConnectionClose() {
		var r2 Request
		err2 := r2.Read(br)
		t.Fatalf("GOCV-REPRO Transfer-Encoding: identity accepted with ConnectionClose()=false; the bytes after the head were read as a second request %q (err=%v)", r2.Header.RequestURI(), err2)
	}
}
