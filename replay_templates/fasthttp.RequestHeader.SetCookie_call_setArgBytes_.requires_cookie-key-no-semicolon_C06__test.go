package fasthttp

// Replay template (C06): a ';' inside a key handed to RequestHeader.SetCookie must not be read back by the
// server as an additional cookie.

import (
	"bufio"
	"bytes"
	"testing"
)

func TestGocvReplayRequestSetCookieKeySemicolon(t *testing.T) {
	var req Request
	req.SetRequestURI("http://example.com/")
	req.Header.SetCookie("k; injected", "1")
	var buf bytes.Buffer
	bw := bufio.NewWriter(&buf)
	if err := req.Write(bw); err != nil {
		t.Fatal(err)
	}
	bw.Flush()
	var got Request
	if err := got.Read(bufio.NewReader(&buf)); err != nil {
		t.Fatal(err)
	}
	n := 0
	got.Header.VisitAllCookie(func(k, v []byte) { n++ })
	if n != 1 || len(got.Header.Cookie("injected")) != 0 {
		t.Fatalf("GOCV-REPRO one SetCookie call produced %d cookies on the wire; the server sees injected=%q (header %q)", n, got.Header.Cookie("injected"), got.Header.Peek("Cookie"))
	}
}
