package fasthttp

// Replay template (C14): the ConnState hook must see StateNew first for every connection,
// also for connections served through ServeConn.

import (
	"net"
	"sync"
	"testing"
	"time"

	"github.com/valyala/fasthttp/fasthttputil"
)

func TestGocvReplayServeConnStateNew(t *testing.T) {
	var mu sync.Mutex
	var states []ConnState
	s := &Server{
		Handler: func(ctx *RequestCtx) {},
		ConnState: func(c net.Conn, st ConnState) {
			mu.Lock()
			states = append(states, st)
			mu.Unlock()
		},
	}
	pc := fasthttputil.NewPipeConns()
	done := make(chan struct{})
	go func() { _ = s.ServeConn(pc.Conn1()); close(done) }()
	c := pc.Conn2()
	_, _ = c.Write([]byte("GET / HTTP/1.1\r\nHost: a\r\nConnection: close\r\n\r\n"))
	buf := make([]byte, 4096)
	_ = c.SetReadDeadline(time.Now().Add(2 * time.Second))
	for {
		if _, err := c.Read(buf); err != nil {
			break
		}
	}
	c.Close()
	select {
	case <-done:
	case <-time.After(2 * time.Second):
	}
	mu.Lock()
	defer mu.Unlock()
	if len(states) == 0 || states[0] != StateNew {
		t.Fatalf("GOCV-REPRO first ConnState reported for a ServeConn connection is not StateNew: %v", states)
	}
}
