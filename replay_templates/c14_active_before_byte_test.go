package fasthttp

// Replay template (C14): StateActive must be reported only once a byte of a request has arrived.

import (
	"net"
	"sync"
	"testing"
	"time"

	"github.com/valyala/fasthttp/fasthttputil"
)

func TestGocvReplayActiveBeforeFirstByte(t *testing.T) {
	var mu sync.Mutex
	var states []ConnState
	s := &Server{
		Handler: func(ctx *RequestCtx) {},
		ConnState: func(c net.Conn, st ConnState) {
			mu.Lock()
			states = append(states, st)
			mu.Unlock()
		},
	}
	ln := fasthttputil.NewInmemoryListener()
	go s.Serve(ln) //nolint:errcheck
	defer ln.Close()
	c, err := ln.Dial()
	if err != nil {
		t.Fatal(err)
	}
	time.Sleep(100 * time.Millisecond) // the client sends nothing
	mu.Lock()
	got := append([]ConnState(nil), states...)
	mu.Unlock()
	c.Close()
	for _, st := range got {
		if st == StateActive {
			t.Fatalf("GOCV-REPRO StateActive reported although the client has not sent a single byte: %v", got)
		}
	}
}
