package fasthttp

// Replay template (C03, known finding): a body stream that yields more bytes than the size declared for it puts
// all of them on the wire (the mismatch is only detected after the copy).

import (
	"bufio"
	"bytes"
	"strings"
	"testing"
)

func TestGocvReplayStreamLongerThanDeclared(t *testing.T) {
	var resp Response
	resp.SetBodyStream(strings.NewReader(strings.Repeat("x", 20000)), 5000)
	var buf bytes.Buffer
	bw := bufio.NewWriter(&buf)
	err := resp.Write(bw)
	bw.Flush()
	out := buf.Bytes()
	i := bytes.Index(out, []byte("\r\n\r\n"))
	if i < 0 {
		t.Fatalf("no header block in output (err=%v)", err)
	}
	body := len(out) - i - 4
	if body > 5000 {
		t.Fatalf("GOCV-REPRO Content-Length 5000 declared, %d body bytes written to the wire (err=%v)", body, err)
	}
}
