package fasthttp

// Replay template (C02): StreamRequestBody is on and the handler does not read the body.
// The next request must start after the framed body, or the connection must be closed.

import (
	"bufio"
	"strings"
	"sync/atomic"
	"testing"
	"time"

	"github.com/valyala/fasthttp/fasthttputil"
)

func TestGocvReplayStreamBodyNotDrained(t *testing.T) {
	var smuggled atomic.Int32
	s := &Server{
		StreamRequestBody: true,
		Handler: func(ctx *RequestCtx) {
			if string(ctx.Path()) == "/smuggled" {
				smuggled.Add(1)
			}
		},
	}
	ln := fasthttputil.NewInmemoryListener()
	go s.Serve(ln) //nolint:errcheck
	defer ln.Close()
	c, err := ln.Dial()
	if err != nil {
		t.Fatal(err)
	}
	defer c.Close()
	_ = c.SetDeadline(time.Now().Add(3 * time.Second))
	hidden := "GET /smuggled HTTP/1.1\r\nHost: a\r\n\r\n"
	body := strings.Repeat("x", 8192) + hidden // the server prefetches exactly 8 KiB of a streamed body; the rest stays on the wire
	req := "POST /one HTTP/1.1\r\nHost: a\r\nContent-Length: " + string(AppendUint(nil, len(body))) + "\r\n\r\n" + body
	go func() { _, _ = c.Write([]byte(req)) }()
	br := bufio.NewReader(c)
	for i := 0; i < 3; i++ {
		var r Response
		if err := r.Read(br); err != nil {
			break
		}
	}
	time.Sleep(50 * time.Millisecond)
	if smuggled.Load() != 0 {
		t.Fatalf("GOCV-REPRO bytes of the unread streamed body were dispatched as a request (%d times)", smuggled.Load())
	}
}
