package fasthttp

// Replay template (C10, client side): a response whose Connection header says close -- in any letter case or as one
// token of a list -- must be seen as ConnectionClose(), otherwise the client pools a connection the server closes.

import (
	"bufio"
	"strings"
	"testing"
)

func TestGocvReplayResponseConnectionCloseTokens(t *testing.T) {
	for _, conn := range []string{
		"Connection: Close\r\n",
		"Connection: close,Upgrade\r\n",
		"Connection: close\r\nConnection: keep-alive\r\n",
	} {
		var r Response
		in := "HTTP/1.1 200 OK\r\nContent-Length: 0\r\n" + conn + "\r\n"
		if err := r.Read(bufio.NewReader(strings.NewReader(in))); err != nil {
			t.Fatal(err)
		}
		if !r.Header.ConnectionClose() {
			t.Fatalf("GOCV-REPRO %q: ConnectionClose()=false, the client would reuse a connection the server is closing", conn)
		}
	}
}
