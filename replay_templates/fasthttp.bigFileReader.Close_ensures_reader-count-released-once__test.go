package fasthttp

// Replay template (C25): closing a big-file reader must give its reader count back on every path, also when the
// file of a custom fs.FS does not implement io.Seeker; otherwise the cached file is never released.

import (
	"io/fs"
	"testing"
	"time"
)

type gocvNoSeekFile struct{ closed int }

func (f *gocvNoSeekFile) Stat() (fs.FileInfo, error) { return gocvFileInfo{}, nil }
func (f *gocvNoSeekFile) Read(p []byte) (int, error)  { return 0, nil }
func (f *gocvNoSeekFile) Close() error                { f.closed++; return nil }

type gocvFileInfo struct{}

func (gocvFileInfo) Name() string       { return "big.bin" }
func (gocvFileInfo) Size() int64        { return 1 << 20 }
func (gocvFileInfo) Mode() fs.FileMode  { return 0o444 }
func (gocvFileInfo) ModTime() time.Time { return time.Time{} }
func (gocvFileInfo) IsDir() bool        { return false }
func (gocvFileInfo) Sys() any           { return nil }

type gocvCountingCache struct{ dec int }

func (c *gocvCountingCache) Lock()                                               {}
func (c *gocvCountingCache) Unlock()                                             {}
func (c *gocvCountingCache) Close()                                              {}
func (c *gocvCountingCache) DecReadersCount(ff *fsFile)                          { c.dec++ }
func (c *gocvCountingCache) GetFileFromCache(CacheKind, []byte) (*fsFile, bool)  { return nil, false }
func (c *gocvCountingCache) SetFileToCache(_ CacheKind, _ []byte, ff *fsFile) *fsFile { return ff }

func TestGocvReplayBigFileReaderCloseKeepsReaderCount(t *testing.T) {
	cm := &gocvCountingCache{}
	ff := &fsFile{h: &fsHandler{cacheManager: cm}}
	r := &bigFileReader{f: &gocvNoSeekFile{}, ff: ff}
	r.r = r.f
	_ = r.Close()
	if cm.dec != 1 {
		t.Fatalf("GOCV-REPRO bigFileReader.Close on a non-seekable file released the reader count %d times, want 1 (the cached file can never be released)", cm.dec)
	}
}
