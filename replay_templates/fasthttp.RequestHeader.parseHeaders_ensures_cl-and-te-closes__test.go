package fasthttp

// Replay template (C01): a request carrying both Content-Length and Transfer-Encoding must not be followed by
// another request on the same connection (RFC 9112 section 6.1: the server MUST close the connection after it).

import (
	"bufio"
	"strings"
	"testing"
)

func TestGocvReplayContentLengthAndTransferEncoding(t *testing.T) {
	for _, head := range []string{
		"POST / HTTP/1.1\r\nHost: a\r\nContent-Length: 3\r\nTransfer-Encoding: chunked\r\n\r\n",
		"POST / HTTP/1.1\r\nHost: a\r\nTransfer-Encoding: chunked\r\nContent-Length: 3\r\n\r\n",
	} {
		var r Request
		err := r.Read(bufio.NewReader(strings.NewReader(head + "3\r\nabc\r\n0\r\n\r\n")))
		if err == nil && !r.Header.ConnectionClose() {
			t.Fatalf("GOCV-REPRO %q accepted with ConnectionClose()=false: the connection stays open for a next request", head)
		}
	}
}
