package fasthttp

// Replay template (C09): whether a request head is accepted must not depend on the bytes that follow its
// terminating blank line.

import (
	"bufio"
	"strings"
	"testing"
)

func TestGocvReplayHeadDependsOnFollowingBytes(t *testing.T) {
	head := "GET / HTTP/1.1\r\nHost: a\n\n"
	var h1 RequestHeader
	err1 := h1.Read(bufio.NewReader(strings.NewReader(head)))
	var h2 RequestHeader
	err2 := h2.Read(bufio.NewReader(strings.NewReader(head + "GET /x HTTP/1.1\r\nHost: b\r\n\r\n")))
	if (err1 == nil) != (err2 == nil) {
		t.Fatalf("GOCV-REPRO the head %q alone gives err=%v; followed by another request it gives err=%v (host %q): acceptance depends on the bytes after the blank line", head, err1, err2, h2.Host())
	}
}
