package fasthttp

// Replay template (C10, request side): a request whose Connection header asks for close -- in any letter case, as
// one token of a list, or in one of several Connection fields -- must be seen as ConnectionClose().

import (
	"bufio"
	"strings"
	"testing"
)

func TestGocvReplayConnectionCloseTokens(t *testing.T) {
	for _, conn := range []string{
		"Connection: Close\r\n",
		"Connection: close,TE\r\n",
		"Connection: TE, close\r\n",
		"Connection: close\r\nConnection: keep-alive\r\n",
	} {
		var r Request
		in := "GET / HTTP/1.1\r\nHost: a\r\n" + conn + "\r\n"
		if err := r.Read(bufio.NewReader(strings.NewReader(in))); err != nil {
			t.Fatal(err)
		}
		if !r.Header.ConnectionClose() {
			t.Fatalf("GOCV-REPRO %q: ConnectionClose()=false, the server keeps the connection open although the request asked for close", conn)
		}
	}
}
