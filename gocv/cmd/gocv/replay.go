package main

import (
	"encoding/json"
	"fmt"
	"go/ast"
	"go/token"
	"go/types"
	"os"
	"os/exec"
	"path/filepath"
	"sort"
	"strconv"
	"strings"
	"time"
)

// ReplayResult records what happened when a failed obligation was replayed on the real code.
type ReplayResult struct {
	Path       string
	Reproduced bool
	Detail     string
}

// ---------------------------------------------------------------------------
// SExpr -> JSON for the injected evaluator

func specToJSON(e SExpr) map[string]any {
	n := func(k, v string, a ...SExpr) map[string]any {
		m := map[string]any{"k": k}
		if v != "" {
			m["v"] = v
		}
		var as []any
		for _, x := range a {
			if x == nil {
				as = append(as, map[string]any{"k": "nil"})
			} else {
				as = append(as, specToJSON(x))
			}
		}
		if len(as) > 0 {
			m["a"] = as
		}
		return m
	}
	switch x := e.(type) {
	case SLit:
		return n("lit", x.Val)
	case SBoolL:
		return n("bool", fmt.Sprint(x.Val))
	case SStr:
		m := n("str", "")
		m["v"] = x.Val
		return m
	case SNil:
		return n("nil", "")
	case SId:
		return n("id", x.Name)
	case SSel:
		if id, ok := x.X.(SId); ok && (id.Name == "math" || id.Name == "io" || id.Name == "bufio") {
			return n("id", id.Name+"."+x.Sel)
		}
		return n("sel", x.Sel, x.X)
	case SIdx:
		return n("idx", "", x.X, x.I)
	case SSlice:
		m := n("slice", "", x.X, x.Lo, x.Hi)
		m["f"] = []bool{x.Lo != nil, x.Hi != nil}
		return m
	case SCall:
		return n("call", x.Fn, x.Args...)
	case SUn:
		return n("un", x.Op, x.X)
	case SBin:
		return n("bin", x.Op, x.L, x.R)
	case SCond:
		return n("cond", "", x.C, x.A, x.B)
	case SQuant:
		m := n("quant", x.Var, x.Lo, x.Hi, x.Body)
		m["f"] = []bool{x.Forall, x.LoOpen, x.HiOpen}
		return m
	case SOld:
		return n("old", "", x.X)
	}
	panic(fmt.Sprintf("specToJSON: %T", e))
}

// freeNames lists identifiers used in e that are not bound by quantifiers.
func freeNames(e SExpr, out map[string]bool, db *ContractDB, seenSpecs map[string]bool) {
	var walk func(e SExpr, bound map[string]bool)
	walk = func(e SExpr, bound map[string]bool) {
		switch x := e.(type) {
		case nil:
		case SId:
			if !bound[x.Name] {
				out[x.Name] = true
			}
		case SSel:
			if id, ok := x.X.(SId); ok && (id.Name == "math" || id.Name == "io" || id.Name == "bufio") {
				out[id.Name+"."+x.Sel] = true
				return
			}
			walk(x.X, bound)
		case SIdx:
			walk(x.X, bound)
			walk(x.I, bound)
		case SSlice:
			walk(x.X, bound)
			walk(x.Lo, bound)
			walk(x.Hi, bound)
		case SCall:
			for _, a := range x.Args {
				walk(a, bound)
			}
			if sf, ok := db.Specs[x.Fn]; ok && !seenSpecs[x.Fn] {
				seenSpecs[x.Fn] = true
				nb := map[string]bool{}
				for _, p := range sf.Params {
					nb[p.Name] = true
				}
				walk(sf.Body, nb)
			}
		case SUn:
			walk(x.X, bound)
		case SBin:
			walk(x.L, bound)
			walk(x.R, bound)
		case SCond:
			walk(x.C, bound)
			walk(x.A, bound)
			walk(x.B, bound)
		case SQuant:
			walk(x.Lo, bound)
			walk(x.Hi, bound)
			nb := map[string]bool{x.Var: true}
			for k := range bound {
				nb[k] = true
			}
			walk(x.Body, nb)
		case SOld:
			walk(x.X, bound)
		}
	}
	walk(e, map[string]bool{})
}

// ---------------------------------------------------------------------------
// s-expression reader for get-value output

type sx struct {
	atom string
	list []*sx
}

func parseSx(s string) []*sx {
	var stack [][]*sx
	cur := []*sx{}
	i := 0
	for i < len(s) {
		c := s[i]
		switch {
		case c == '(':
			stack = append(stack, cur)
			cur = []*sx{}
			i++
		case c == ')':
			if len(stack) == 0 {
				return cur
			}
			l := &sx{list: cur}
			if l.list == nil {
				l.list = []*sx{}
			}
			cur = append(stack[len(stack)-1], l)
			stack = stack[:len(stack)-1]
			i++
		case c == ' ' || c == '\n' || c == '\t' || c == '\r':
			i++
		case c == '|':
			j := strings.IndexByte(s[i+1:], '|')
			if j < 0 {
				return cur
			}
			cur = append(cur, &sx{atom: s[i : i+j+2]})
			i += j + 2
		case c == '"':
			j := strings.IndexByte(s[i+1:], '"')
			if j < 0 {
				return cur
			}
			cur = append(cur, &sx{atom: s[i : i+j+2]})
			i += j + 2
		default:
			j := i
			for j < len(s) && !strings.ContainsRune("() \n\t\r", rune(s[j])) {
				j++
			}
			cur = append(cur, &sx{atom: s[i:j]})
			i = j
		}
	}
	return cur
}

func sxInt(x *sx) (int64, bool) {
	if x == nil {
		return 0, false
	}
	if x.list == nil {
		switch x.atom {
		case "true":
			return 1, true
		case "false":
			return 0, true
		}
		v, err := strconv.ParseInt(x.atom, 10, 64)
		if err != nil {
			// values beyond int64: clamp
			if len(x.atom) > 0 && x.atom[0] >= '0' && x.atom[0] <= '9' {
				return 1<<63 - 1, true
			}
			return 0, false
		}
		return v, true
	}
	if len(x.list) == 2 && x.list[0].atom == "-" {
		v, ok := sxInt(x.list[1])
		return -v, ok
	}
	return 0, false
}

// ---------------------------------------------------------------------------
// witness terms

type witnessTerm struct {
	path string // e.g. "buf.len", "buf[3]", "n", "recv.r"
	term string
}

const maxWitnessLen = 48

func (fc *FnCtx) witnessTerms() []witnessTerm {
	var out []witnessTerm
	st := fc.entry
	var add func(path string, v Val, depth int)
	add = func(path string, v Val, depth int) {
		switch x := v.(type) {
		case VInt:
			out = append(out, witnessTerm{path, x.T.S})
		case VBool:
			out = append(out, witnessTerm{path, x.T.S})
		case VSlice:
			if !isByteElem(x.Elem) {
				out = append(out, witnessTerm{path + ".len", x.Len.S})
				return
			}
			out = append(out, witnessTerm{path + ".len", x.Len.S}, witnessTerm{path + ".cap", x.Cap.S}, witnessTerm{path + ".nil", eq(x.Rgn, mkInt(0)).S})
			arr := sel(st.heap, x.Rgn)
			for i := 0; i < maxWitnessLen; i++ {
				out = append(out, witnessTerm{fmt.Sprintf("%s[%d]", path, i), sel(arr, add2(x.Off, int64(i))).S})
			}
		case VStr:
			out = append(out, witnessTerm{path + ".len", x.Len.S})
			for i := 0; i < maxWitnessLen; i++ {
				out = append(out, witnessTerm{fmt.Sprintf("%s[%d]", path, i), sel(x.Arr, add2(x.Off, int64(i))).S})
			}
		case VPtr:
			if x.Obj >= 0 && depth < 2 {
				if tv, ok := st.objs[x.Obj]; ok {
					add(path, tv, depth+1)
				}
			}
		case VStruct:
			if depth >= 3 {
				return
			}
			for _, k := range sortedKeys(x.F) {
				add(path+"."+k, x.F[k], depth+1)
			}
		}
	}
	names := make([]string, 0, len(fc.entryVars))
	for n := range fc.entryVars {
		names = append(names, n)
	}
	sort.Strings(names)
	for _, n := range names {
		add(n, fc.entryVars[n], 0)
	}
	return out
}

func add2(a T, k int64) T { return add(a, mkInt(k)) }

// extractModel asks the solvers for a model of the (possibly relaxed) failing query and reads the witness terms.
func (r *Runner) extractModel(o *Obligation) (map[string]int64, string) {
	wt := o.fc.witnessTerms()
	if len(wt) == 0 {
		return nil, ""
	}
	var terms []string
	for _, w := range wt {
		terms = append(terms, w.term)
	}
	getv := "(get-value (" + strings.Join(terms, " ") + "))\n"
	try := func(q string, tag string) (map[string]int64, string) {
		q = strings.Replace(q, "(get-model)\n", "", 1) + getv
		for _, s := range []string{"z3-5", "cvc5", "z3-4"} {
			v := runSolvers(r.workdir, o.Name+".model."+tag, q, 10, []string{s})
			if v.Result != "sat" {
				continue
			}
			vals := parseSx(v.Model)
			if len(vals) == 0 || vals[0].list == nil {
				continue
			}
			pairs := vals[0].list
			if len(pairs) != len(wt) {
				continue
			}
			m := map[string]int64{}
			for i, p := range pairs {
				if len(p.list) == 2 {
					if iv, ok := sxInt(p.list[1]); ok {
						m[wt[i].path] = iv
					}
				}
			}
			return m, s + "/" + tag
		}
		return nil, ""
	}
	if m, how := try(o.query("", false), "full"); m != nil {
		return m, how
	}
	// relaxed: drop quantified facts and spec-function axioms (candidates only; validated by replay)
	return try(o.relaxedQuery(), "relaxed")
}

func (o *Obligation) relaxedQuery() string {
	var sb strings.Builder
	sb.WriteString("(set-option :produce-models true)\n(set-logic ALL)\n")
	for _, l := range o.fc.eng.prelude {
		sb.WriteString(l + "\n")
	}
	for _, d := range o.fc.decls[:o.nDecl] {
		sb.WriteString(d + "\n")
	}
	for _, f := range o.fc.facts[:o.nFact] {
		if strings.Contains(f, "(forall ") || strings.Contains(f, "(exists ") {
			continue
		}
		sb.WriteString("(assert " + f + ")\n")
	}
	sb.WriteString("(assert " + o.pc.S + ")\n")
	sb.WriteString("(assert (not " + o.goal.S + "))\n(check-sat)\n")
	return sb.String()
}

// ---------------------------------------------------------------------------
// test generation

type replayParam struct {
	name string
	kind string // bytes, string, int, bool, recv
	typ  types.Type
	goT  string
}

func goTypeString(t types.Type, pkg *types.Package) string {
	return types.TypeString(t, func(p *types.Package) string {
		if p == pkg {
			return ""
		}
		return p.Name()
	})
}

func (fc *FnCtx) replayParams() ([]replayParam, bool) {
	var ps []replayParam
	for _, p := range fc.params {
		n := p.Name()
		if n == "" || n == "_" {
			return nil, false
		}
		rp := replayParam{name: n, typ: p.Type(), goT: goTypeString(p.Type(), fc.pkg.Types)}
		switch u := p.Type().Underlying().(type) {
		case *types.Basic:
			switch {
			case u.Info()&types.IsInteger != 0:
				rp.kind = "int"
			case u.Info()&types.IsBoolean != 0:
				rp.kind = "bool"
			case u.Info()&types.IsString != 0:
				rp.kind = "string"
			default:
				return nil, false
			}
		case *types.Slice:
			if !isByteElem(u.Elem()) {
				return nil, false
			}
			rp.kind = "bytes"
		case *types.Pointer:
			if _, ok := u.Elem().Underlying().(*types.Struct); !ok {
				return nil, false
			}
			if fc.sig.Recv() != p {
				return nil, false
			}
			rp.kind = "recv"
		default:
			return nil, false
		}
		ps = append(ps, rp)
	}
	return ps, true
}

func goBytes(b []byte) string {
	if b == nil {
		return "nil"
	}
	return "[]byte(" + strconv.Quote(string(b)) + ")"
}

func modelBytes(m map[string]int64, path string) ([]byte, bool) {
	n, ok := m[path+".len"]
	if !ok || n < 0 || n > maxWitnessLen {
		return nil, false
	}
	if isNil := m[path+".nil"]; isNil == 1 && n == 0 {
		return nil, true
	}
	b := make([]byte, n)
	for i := range b {
		v := m[fmt.Sprintf("%s[%d]", path, i)]
		b[i] = byte(v)
	}
	return b, true
}

// tokens collects string/char constants from the function and its contract for the bounded input search.
func (fc *FnCtx) tokens(extra []SExpr) []string {
	set := map[string]bool{"0": true, "1": true, "9": true, "a": true}
	var visitFn func(pkgPath, name string, depth int)
	seen := map[string]bool{}
	addStr := func(s string) {
		if len(s) > 0 && len(s) <= 24 {
			set[s] = true
		}
	}
	visitBody := func(p *FnCtx, body ast.Node, depth int) {
		ast.Inspect(body, func(n ast.Node) bool {
			switch x := n.(type) {
			case *ast.BasicLit:
				if x.Kind == token.STRING || x.Kind == token.CHAR {
					if tv, ok := fc.pkg.TypesInfo.Types[x]; ok && tv.Value != nil {
						switch tv.Value.Kind().String() {
						case "String":
							s, _ := strconv.Unquote(x.Value)
							addStr(s)
						default:
							if x.Kind == token.CHAR {
								if r, _, _, err := strconv.UnquoteChar(x.Value[1:len(x.Value)-1], '\''); err == nil && r < 256 {
									addStr(string([]byte{byte(r)}))
								}
							}
						}
					}
				}
			case *ast.Ident:
				if o, ok := fc.pkg.TypesInfo.Uses[x].(*types.Var); ok && o.Parent() == fc.pkg.Types.Scope() {
					if s, ok := fc.eng.globalBytes(o); ok {
						addStr(s)
					}
					if s, ok := fc.eng.globalString(o); ok {
						addStr(s)
					}
				}
			case *ast.CallExpr:
				if depth < 2 {
					name, pkgPath, fn, _, _ := fc.calleeInfo(x)
					if fn != nil && pkgPath == fc.pkg.PkgPath {
						visitFn(pkgPath, name, depth+1)
					}
				}
			}
			return true
		})
	}
	visitFn = func(pkgPath, name string, depth int) {
		if seen[name] {
			return
		}
		seen[name] = true
		if fe := fc.eng.findFunc(pkgPath, name); fe != nil && fe.decl != nil && fe.decl.Body != nil && fe.pkg == fc.pkg {
			visitBody(fc, fe.decl.Body, depth)
		}
	}
	visitBody(fc, fc.body, 0)
	for _, e := range extra {
		walkSpec(e, func(x SExpr) {
			if s, ok := x.(SStr); ok {
				addStr(s.Val)
			}
		})
	}
	var out []string
	for s := range set {
		out = append(out, s)
	}
	sort.Strings(out)
	if len(out) > 12 {
		// prefer longer tokens (keywords) and punctuation over letters, but always keep one letter and one digit
		sort.SliceStable(out, func(i, j int) bool { return tokenRank(out[i]) > tokenRank(out[j]) })
		out = append(out[:10], "a", "0")
		sort.Strings(out)
	}
	return out
}

func tokenRank(s string) int {
	if len(s) > 1 {
		return 100 + len(s)
	}
	c := s[0]
	switch {
	case c >= '0' && c <= '9':
		return 50
	case c >= 'a' && c <= 'z', c >= 'A' && c <= 'Z':
		return 10
	}
	return 80
}

// replayObligation turns a failed obligation into an executable test against the real code.
func (r *Runner) replayObligation(o *Obligation, prop, replayDir string) *ReplayResult {
	dir := filepath.Join(replayDir, sanitize(o.Name))
	_ = os.RemoveAll(dir)
	_ = os.MkdirAll(dir, 0o755)
	res := &ReplayResult{Path: filepath.Join(dir, "replay.json")}
	info := map[string]any{
		"property": prop, "obligation": o.Name, "kind": o.Kind, "at": o.Pos, "clause": o.Src,
		"solver_verdicts": o.Verdict.All, "result": o.Verdict.Result,
	}
	smt := filepath.Join(dir, "query.smt2")
	_ = os.WriteFile(smt, []byte(o.query("", true)), 0o644)
	info["smt_file"] = smt
	defer func() {
		if e := recover(); e != nil {
			// a failure to build a replay must never hide the violation itself
			res.Reproduced = false
			res.Detail = fmt.Sprintf("no replay could be generated for this obligation (%v); the solver output is attached", e)
		}
		info["reproduced"] = res.Reproduced
		info["detail"] = res.Detail
		data, _ := json.MarshalIndent(info, "", " ")
		_ = os.WriteFile(res.Path, append(data, '\n'), 0o644)
	}()
	// hand-written replay templates for skeleton obligations
	if tpl := r.findTemplate(o); tpl != "" {
		ok, out := r.runTemplate(o.fc, tpl, dir)
		info["template"] = tpl
		info["go_test_output"] = tail(out, 4000)
		res.Reproduced = ok
		if ok {
			res.Detail = "replay template " + filepath.Base(tpl) + " fails on the real code"
		} else {
			res.Detail = "replay template " + filepath.Base(tpl) + " did not fail"
		}
		return res
	}
	fc := o.fc
	if fc.lit != nil || fc.intBits != 64 {
		res.Detail = "no replay for this kind of function (closure or non-native int size)"
		return res
	}
	params, ok := fc.replayParams()
	if !ok {
		res.Detail = "parameters of this function cannot be constructed from a model"
		return res
	}
	model, how := r.extractModel(o)
	info["model_source"] = how
	if model != nil {
		small := map[string]int64{}
		for k, v := range model {
			if !strings.Contains(k, "[") {
				small[k] = v
			}
		}
		info["model"] = small
	}
	src, err := r.genReplayTest(o, params, model)
	if err != nil {
		res.Detail = "cannot generate replay: " + err.Error()
		return res
	}
	testFile := filepath.Join(dir, "zz_gocv_replay_test.go")
	_ = os.WriteFile(testFile, []byte(src), 0o644)
	info["test_file"] = testFile
	ok2, out := r.runOverlayTest(fc, testFile, dir, "TestGocvReplay")
	info["go_test_output"] = tail(out, 4000)
	for _, l := range strings.Split(out, "\n") {
		if strings.HasPrefix(strings.TrimSpace(l), "GOCV-REPRO") {
			res.Reproduced = true
			res.Detail = strings.TrimSpace(l)
			info["failing_input"] = strings.TrimSpace(l)
		}
	}
	if !res.Reproduced {
		if ok2 {
			res.Detail = "model and bounded input search did not reproduce the failure on the real code"
		} else {
			res.Detail = "replay test did not run to completion"
		}
	}
	return res
}

func tail(s string, n int) string {
	if len(s) > n {
		return s[len(s)-n:]
	}
	return s
}

// runOverlayTest runs an injected in-package test with go test -overlay.
func (r *Runner) runOverlayTest(fc *FnCtx, testFile, dir, run string) (bool, string) {
	pkgDir := filepath.Dir(fc.pkg.GoFiles[0])
	ov := map[string]any{"Replace": map[string]string{filepath.Join(pkgDir, "zz_gocv_replay_test.go"): testFile}}
	data, _ := json.Marshal(ov)
	ovf := filepath.Join(dir, "overlay.json")
	_ = os.WriteFile(ovf, data, 0o644)
	cmd := exec.Command("go", "test", "-overlay", ovf, "-vet=off", "-count=1", "-timeout", "120s", "-run", "^"+run+"$", ".")
	cmd.Dir = pkgDir
	cmd.Env = append(os.Environ(), "GOFLAGS=-mod=mod", "GOPROXY=off")
	t0 := time.Now()
	out, err := cmd.CombinedOutput()
	_ = t0
	return err == nil || strings.Contains(string(out), "--- FAIL"), string(out)
}

func (r *Runner) findTemplate(o *Obligation) string {
	for _, k := range o.Known {
		if k.Replay != "" {
			return filepath.Join(r.verif, k.Replay)
		}
	}
	p := filepath.Join(r.verif, "replay_templates", sanitize(o.Base)+"_test.go")
	if _, err := os.Stat(p); err == nil {
		return p
	}
	// one template for all clauses of a lemma (or function): the part of the obligation name before '#'
	if k := strings.Index(o.Base, "#"); k > 0 && strings.Contains(o.Base, "lemma:") {
		p = filepath.Join(r.verif, "replay_templates", sanitize(o.Base[:k])+"_test.go")
		if _, err := os.Stat(p); err == nil {
			return p
		}
	}
	return ""
}

func (r *Runner) runTemplate(fc *FnCtx, tpl, dir string) (bool, string) {
	_, out := r.runOverlayTest(fc, tpl, dir, "TestGocvReplay.*")
	return strings.Contains(out, "--- FAIL"), out
}

func (r *Runner) genReplayTest(o *Obligation, params []replayParam, model map[string]int64) (string, error) {
	fc := o.fc
	ct := fc.contract
	var sb strings.Builder
	fmt.Fprintf(&sb, "// Code generated by gocv for obligation %s; DO NOT EDIT.\n\npackage %s\n", o.Name, fc.pkg.Types.Name())
	src := strings.Replace(interpSrc, "import (", "import (\n\t\"testing\"\n\t\"os\"", 1)
	sb.WriteString(src)
	// which clause is being checked?
	var failing *Clause
	if o.Kind == "ensures" {
		for k, cl := range ct.Ensures {
			if fc.name+"#"+clauseName("ensures", cl, k) == o.Base {
				failing = cl
			}
		}
	}
	// names needing bindings
	names := map[string]bool{}
	seenSpecs := map[string]bool{}
	var exprs []SExpr
	for _, cl := range ct.Requires {
		freeNames(cl.Expr, names, fc.eng.db, seenSpecs)
		exprs = append(exprs, cl.Expr)
	}
	var checked []*Clause
	if failing != nil {
		checked = []*Clause{failing}
	} else {
		// safety / invariant obligations: any postcondition or panic counts as a symptom
		for _, cl := range ct.Ensures {
			if fc.clauseActive(cl) {
				checked = append(checked, cl)
			}
		}
	}
	for _, cl := range checked {
		freeNames(cl.Expr, names, fc.eng.db, seenSpecs)
		exprs = append(exprs, cl.Expr)
	}
	specs := map[string]any{}
	for name := range seenSpecs {
		sf := fc.eng.db.Specs[name]
		var ps []string
		for _, p := range sf.Params {
			ps = append(ps, p.Name)
		}
		specs[name] = map[string]any{"params": ps, "body": specToJSON(sf.Body)}
	}
	specsJSON, _ := json.Marshal(specs)
	// bindings for package-level names
	isParam := map[string]bool{}
	for _, p := range params {
		isParam[p.name] = true
	}
	isRes := map[string]bool{}
	for _, n := range fc.resNames {
		isRes[n] = true
	}
	var consts []string
	var nameList []string
	for n := range names {
		nameList = append(nameList, n)
	}
	sort.Strings(nameList)
	for _, n := range nameList {
		if isParam[n] || isRes[n] {
			continue
		}
		switch n {
		case "MaxInt", "math.MaxInt":
			consts = append(consts, fmt.Sprintf("%q: int(^uint(0) >> 1)", n))
			continue
		case "MinInt", "math.MinInt":
			consts = append(consts, fmt.Sprintf("%q: -int(^uint(0)>>1) - 1", n))
			continue
		case "IntSize":
			consts = append(consts, fmt.Sprintf("%q: 32 << (^uint(0) >> 63)", n))
			continue
		}
		if obj := fc.pkg.Types.Scope().Lookup(n); obj != nil {
			switch obj.(type) {
			case *types.Const, *types.Var:
				consts = append(consts, fmt.Sprintf("%q: %s", n, n))
				continue
			}
		}
		return "", fmt.Errorf("name %s in the contract has no runtime binding", n)
	}
	// the run function
	var sig, callArgs, oldBind, curBind []string
	recvName := ""
	for _, p := range params {
		switch p.kind {
		case "recv":
			recvName = p.name
			sig = append(sig, fmt.Sprintf("%s %s", p.name, p.goT))
			curBind = append(curBind, fmt.Sprintf("%q: %s", p.name, p.name))
			oldBind = append(oldBind, fmt.Sprintf("%q: func() any { c := *%s; return &c }()", p.name, p.name))
		case "bytes":
			sig = append(sig, fmt.Sprintf("%s %s", p.name, p.goT))
			callArgs = append(callArgs, p.name)
			curBind = append(curBind, fmt.Sprintf("%q: []byte(%s)", p.name, p.name))
			oldBind = append(oldBind, fmt.Sprintf("%q: gocvClone([]byte(%s))", p.name, p.name))
		default:
			sig = append(sig, fmt.Sprintf("%s %s", p.name, p.goT))
			callArgs = append(callArgs, p.name)
			curBind = append(curBind, fmt.Sprintf("%q: %s", p.name, p.name))
			oldBind = append(oldBind, fmt.Sprintf("%q: %s", p.name, p.name))
		}
	}
	fname := fc.decl.Name.Name
	call := fname + "(" + strings.Join(callArgs, ", ") + ")"
	if recvName != "" {
		call = recvName + "." + call
	}
	var resVars []string
	for i := range fc.results {
		resVars = append(resVars, fmt.Sprintf("gocvR%d", i))
	}
	sb.WriteString("\nfunc gocvClone(b []byte) []byte {\n\tif b == nil {\n\t\treturn nil\n\t}\n\treturn append([]byte{}, b...)\n}\n")
	fmt.Fprintf(&sb, "\nvar gocvSpecs = gocvParseSpecs(%s)\n", strconv.Quote(string(specsJSON)))
	sb.WriteString("var gocvRequires = []*gocvNode{\n")
	for _, cl := range ct.Requires {
		j, _ := json.Marshal(specToJSON(cl.Expr))
		fmt.Fprintf(&sb, "\tgocvParse(%s),\n", strconv.Quote(string(j)))
	}
	sb.WriteString("}\nvar gocvChecked = []*gocvNode{\n")
	for _, cl := range checked {
		j, _ := json.Marshal(specToJSON(cl.Expr))
		fmt.Fprintf(&sb, "\tgocvParse(%s),\n", strconv.Quote(string(j)))
	}
	sb.WriteString("}\nvar gocvCheckedSrc = []string{\n")
	for _, cl := range checked {
		fmt.Fprintf(&sb, "\t%s,\n", strconv.Quote(cl.Src))
	}
	sb.WriteString("}\n")
	panicIsViolation := o.Kind != "ensures"
	fmt.Fprintf(&sb, "\nfunc gocvRun(%s) (violated bool, detail string) {\n", strings.Join(sig, ", "))
	fmt.Fprintf(&sb, "\told := map[string]any{%s}\n", strings.Join(append(oldBind, consts...), ", "))
	fmt.Fprintf(&sb, "\tcur := map[string]any{%s}\n", strings.Join(append(curBind, consts...), ", "))
	sb.WriteString("\tfor _, rq := range gocvRequires {\n\t\tif ok, e := gocvCheck(rq, gocvSpecs, old, old); !ok || e != \"\" {\n\t\t\treturn false, \"precondition\"\n\t\t}\n\t}\n")
	fmt.Fprintf(&sb, "\tdefer func() {\n\t\tif r := recover(); r != nil {\n\t\t\tif _, isAbort := r.(gocvAbort); isAbort {\n\t\t\t\tviolated, detail = false, \"eval\"\n\t\t\t\treturn\n\t\t\t}\n\t\t\tviolated, detail = %v, fmt.Sprintf(\"panic: %%v\", r)\n\t\t}\n\t}()\n", panicIsViolation)
	if len(resVars) > 0 {
		fmt.Fprintf(&sb, "\t%s := %s\n", strings.Join(resVars, ", "), call)
	} else {
		fmt.Fprintf(&sb, "\t%s\n", call)
	}
	for i, n := range fc.resNames {
		fmt.Fprintf(&sb, "\tcur[%q] = gocvR%d\n", n, i)
	}
	sb.WriteString("\tfor i, c := range gocvChecked {\n\t\tholds, e := gocvCheck(c, gocvSpecs, cur, old)\n\t\tif e == \"\" && !holds {\n\t\t\treturn true, \"postcondition violated: \" + gocvCheckedSrc[i] + fmt.Sprintf(\" (results:")
	for range fc.resNames {
		sb.WriteString(" %v")
	}
	sb.WriteString(")\"")
	for i := range fc.resNames {
		fmt.Fprintf(&sb, ", gocvR%d", i)
	}
	sb.WriteString(")\n\t\t}\n\t}\n\treturn false, \"\"\n}\n")

	// test body
	sb.WriteString("\nfunc TestGocvReplay(t *testing.T) {\n")
	sb.WriteString("\treport := func(input string, detail string) {\n\t\tfmt.Fprintf(os.Stdout, \"GOCV-REPRO input=%s :: %s\\n\", input, detail)\n\t\tt.Fatalf(\"contract violated on the real code: %s :: %s\", input, detail)\n\t}\n")
	// candidate from the model
	if model != nil {
		var args, shows []string
		okModel := true
		for _, p := range params {
			switch p.kind {
			case "bytes":
				b, ok := modelBytes(model, p.name)
				if !ok {
					okModel = false
				}
				args = append(args, p.goT+"("+goBytes(b)+")")
				shows = append(shows, fmt.Sprintf("%s=%q", p.name, string(b)))
			case "string":
				b, ok := modelBytes(model, p.name)
				if !ok {
					okModel = false
				}
				args = append(args, p.goT+"("+strconv.Quote(string(b))+")")
				shows = append(shows, fmt.Sprintf("%s=%q", p.name, string(b)))
			case "int":
				v := model[p.name]
				args = append(args, fmt.Sprintf("%s(%d)", p.goT, v))
				shows = append(shows, fmt.Sprintf("%s=%d", p.name, v))
			case "bool":
				args = append(args, fmt.Sprint(model[p.name] == 1))
				shows = append(shows, fmt.Sprintf("%s=%v", p.name, model[p.name] == 1))
			case "recv":
				lit, show := recvLiteral(fc, p, model)
				args = append(args, lit)
				shows = append(shows, show)
			}
		}
		if okModel {
			fmt.Fprintf(&sb, "\tif v, d := gocvRun(%s); v {\n\t\treport(%s, d)\n\t}\n", strings.Join(args, ", "), strconv.Quote("model: "+strings.Join(shows, " ")))
		}
	}
	// bounded token search (inputs only; never used as a proof)
	for _, p := range params {
		if p.kind == "recv" {
			sb.WriteString("\t_ = report\n}\n")
			return sb.String(), nil
		}
	}
	if len(params) == 0 {
		sb.WriteString("\t_ = report\n}\n")
		return sb.String(), nil
	}
	toks := fc.tokens(exprs)
	var tokLits []string
	for _, t := range toks {
		tokLits = append(tokLits, strconv.Quote(t))
	}
	fmt.Fprintf(&sb, "\ttoks := []string{%s}\n", strings.Join(tokLits, ", "))
	sb.WriteString("\tints := []int{0, 1, 2, 9, 10, 11, 100, 255, 256, -1, int(^uint(0) >> 1)}\n\t_ = ints\n")
	sb.WriteString("\tvar seqs []string\n\tvar gen func(prefix string, depth int)\n\tmaxDepth := 5\n\tif len(toks) > 9 {\n\t\tmaxDepth = 4\n\t}\n")
	sb.WriteString("\tgen = func(prefix string, depth int) {\n\t\tseqs = append(seqs, prefix)\n\t\tif depth == maxDepth {\n\t\t\treturn\n\t\t}\n\t\tfor _, tk := range toks {\n\t\t\tgen(prefix+tk, depth+1)\n\t\t}\n\t}\n\tgen(\"\", 0)\n")
	nSeq := 0
	for _, p := range params {
		if (p.kind == "bytes" || p.kind == "string") && !isOutputBufName(p.name) {
			nSeq++
		}
	}
	sb.WriteString("\toutbufs := []string{\"\"}\n\t_ = outbufs\n")
	if nSeq > 1 {
		sb.WriteString("\tif len(seqs) > 600 {\n\t\tseqs = seqs[:600]\n\t}\n")
	}
	sb.WriteString("\tbudget := 400000\n")
	// nested loops
	indent := "\t"
	var args, shows []string
	closeN := 0
	canEnum := true
	for i, p := range params {
		v := fmt.Sprintf("x%d", i)
		switch p.kind {
		case "bytes":
			if isOutputBufName(p.name) {
				// an output buffer: its content does not matter, only try the empty one
				fmt.Fprintf(&sb, "%sfor _, %s := range outbufs {\n", indent, v)
			} else {
				fmt.Fprintf(&sb, "%sfor _, %s := range seqs {\n", indent, v)
			}
			args = append(args, p.goT+"([]byte("+v+"))")
			shows = append(shows, v)
		case "string":
			fmt.Fprintf(&sb, "%sfor _, %s := range seqs {\n", indent, v)
			args = append(args, p.goT+"("+v+")")
			shows = append(shows, v)
		case "int":
			fmt.Fprintf(&sb, "%sfor _, %s := range ints {\n", indent, v)
			args = append(args, p.goT+"("+v+")")
			shows = append(shows, "fmt.Sprint("+v+")")
		case "bool":
			fmt.Fprintf(&sb, "%sfor _, %s := range []bool{false, true} {\n", indent, v)
			args = append(args, v)
			shows = append(shows, "fmt.Sprint("+v+")")
		default:
			canEnum = false
		}
		indent += "\t"
		closeN++
	}
	if canEnum && len(params) > 0 {
		fmt.Fprintf(&sb, "%sif budget--; budget < 0 {\n%s\treturn\n%s}\n", indent, indent, indent)
		var showExpr []string
		for i, p := range params {
			showExpr = append(showExpr, fmt.Sprintf("%q+fmt.Sprintf(\"%%q\", %s)", p.name+"=", shows[i]))
		}
		fmt.Fprintf(&sb, "%sif v, d := gocvRun(%s); v {\n%s\treport(\"search: \"+%s, d)\n%s}\n", indent, strings.Join(args, ", "), indent, strings.Join(showExpr, "+\" \"+"), indent)
	}
	for i := closeN; i > 0; i-- {
		sb.WriteString(strings.Repeat("\t", i) + "}\n")
	}
	sb.WriteString("}\n")
	return sb.String(), nil
}

func closeLoops(n int, canEnum bool) string { return strings.Repeat("}\n", n) }

// recvLiteral builds a receiver value from the model (scalar and byte-slice fields only).
func recvLiteral(fc *FnCtx, p replayParam, model map[string]int64) (string, string) {
	pt := p.typ.Underlying().(*types.Pointer)
	stt := pt.Elem().Underlying().(*types.Struct)
	var fields, shows []string
	for i := 0; i < stt.NumFields(); i++ {
		f := stt.Field(i)
		path := p.name + "." + f.Name()
		switch u := f.Type().Underlying().(type) {
		case *types.Basic:
			switch {
			case u.Info()&types.IsInteger != 0:
				if v, ok := model[path]; ok && v != 0 {
					fields = append(fields, fmt.Sprintf("%s: %d", f.Name(), v))
					shows = append(shows, fmt.Sprintf("%s=%d", f.Name(), v))
				}
			case u.Info()&types.IsBoolean != 0:
				if v, ok := model[path]; ok && v == 1 {
					fields = append(fields, fmt.Sprintf("%s: true", f.Name()))
					shows = append(shows, f.Name()+"=true")
				}
			case u.Info()&types.IsString != 0:
				if b, ok := modelBytes(model, path); ok && len(b) > 0 {
					fields = append(fields, fmt.Sprintf("%s: %s", f.Name(), strconv.Quote(string(b))))
					shows = append(shows, fmt.Sprintf("%s=%q", f.Name(), string(b)))
				}
			}
		case *types.Slice:
			if isByteElem(u.Elem()) {
				if b, ok := modelBytes(model, path); ok && b != nil {
					fields = append(fields, fmt.Sprintf("%s: %s", f.Name(), goBytes(b)))
					shows = append(shows, fmt.Sprintf("%s=%q", f.Name(), string(b)))
				}
			}
		}
	}
	tn := goTypeString(pt.Elem(), fc.pkg.Types)
	return "&" + tn + "{" + strings.Join(fields, ", ") + "}", p.name + "={" + strings.Join(shows, " ") + "}"
}

func isOutputBufName(n string) bool { return n == "dst" || n == "buf" || n == "bufK" || n == "bufV" }
