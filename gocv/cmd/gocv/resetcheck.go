package main

import (
	"go/ast"
	"go/types"
	"sort"
	"strings"
)

// Reset completeness ("fields T" in a function contract).
//
// The obligation is structural: every field of struct type T is either written by the function (assigned, or handed
// to a method / function through the receiver: x.f = v, x.f.Reset(), g(&x.f), ...), directly or in a method of T it
// calls on the same receiver, or it is listed in the contract as `class <field> kept <reason>`. A field added to T
// later that the reset function does not touch fails the obligation `reset-complete[<field>]`. What the write does
// is not examined here (the per-request invariants of the serve loop do that); this only shows no field is forgotten.
// The obligations are decided by this analysis, not by the solver, and are reported as such in the evidence.

func (fc *FnCtx) resetComplete(st *State) {
	ct := fc.contract
	if ct == nil || ct.FieldsOf == "" || fc.decl == nil {
		return
	}
	if strings.Contains(ct.FieldsOf, ",") {
		// several recycled types handled by one function (fields A,B): one set of obligations per type
		for _, tn := range strings.Split(ct.FieldsOf, ",") {
			fc.resetCompleteByType(st, strings.TrimSpace(tn), true)
		}
		return
	}
	if fc.decl.Recv == nil || len(fc.decl.Recv.List) == 0 || recvTypeName(fc.decl.Recv.List[0].Type) != ct.FieldsOf {
		fc.resetCompleteByType(st, ct.FieldsOf, false)
		return
	}
	obj := fc.pkg.Types.Scope().Lookup(ct.FieldsOf)
	if obj == nil {
		panic(unsupported("fields " + ct.FieldsOf + ": no such type"))
	}
	stt, ok := obj.Type().Underlying().(*types.Struct)
	if !ok {
		panic(unsupported("fields " + ct.FieldsOf + ": not a struct"))
	}
	touched := map[string]bool{}
	seen := map[*ast.FuncDecl]bool{}
	var visit func(fd *ast.FuncDecl, depth int)
	visit = func(fd *ast.FuncDecl, depth int) {
		if fd == nil || fd.Body == nil || seen[fd] || depth > 4 || fd.Recv == nil || len(fd.Recv.List) == 0 || len(fd.Recv.List[0].Names) == 0 {
			return
		}
		seen[fd] = true
		rn := fd.Recv.List[0].Names[0].Name
		// first field selected from the receiver in expression e ("" if e is not rooted at the receiver)
		var first func(e ast.Expr) (string, int)
		first = func(e ast.Expr) (string, int) {
			switch x := e.(type) {
			case *ast.ParenExpr:
				return first(x.X)
			case *ast.StarExpr:
				return first(x.X)
			case *ast.UnaryExpr:
				return first(x.X)
			case *ast.IndexExpr:
				return first(x.X)
			case *ast.SliceExpr:
				return first(x.X)
			case *ast.SelectorExpr:
				if id, ok := x.X.(*ast.Ident); ok && id.Name == rn {
					return x.Sel.Name, 1
				}
				f, d := first(x.X)
				if f != "" {
					return f, d + 1
				}
			}
			return "", 0
		}
		ast.Inspect(fd.Body, func(n ast.Node) bool {
			switch x := n.(type) {
			case *ast.AssignStmt:
				for _, l := range x.Lhs {
					if st, ok := l.(*ast.StarExpr); ok {
						if id, ok := st.X.(*ast.Ident); ok && id.Name == rn {
							for i := 0; i < stt.NumFields(); i++ {
								touched[stt.Field(i).Name()] = true // *x = T{...}
							}
						}
					}
					if f, _ := first(l); f != "" {
						touched[f] = true
					}
				}
			case *ast.IncDecStmt:
				if f, _ := first(x.X); f != "" {
					touched[f] = true
				}
			case *ast.CallExpr:
				if se, ok := x.Fun.(*ast.SelectorExpr); ok {
					if id, ok := se.X.(*ast.Ident); ok && id.Name == rn {
						// a method of T on the same receiver: follow it
						if fe := fc.eng.findFunc(fc.pkg.PkgPath, ct.FieldsOf+"."+se.Sel.Name); fe != nil {
							visit(fe.decl, depth+1)
						} else if sel, ok := fc.pkg.TypesInfo.Selections[se]; ok {
							// a method promoted from an embedded struct: it writes that struct's (promoted) fields
							if m, ok := sel.Obj().(*types.Func); ok {
								if sig, ok := m.Type().(*types.Signature); ok && sig.Recv() != nil {
									if fe := fc.eng.findFunc(fc.pkg.PkgPath, typeName(sig.Recv().Type())+"."+m.Name()); fe != nil {
										visit(fe.decl, depth+1)
									}
								}
							}
						}
					} else if f, _ := first(se.X); f != "" {
						touched[f] = true // x.f.Method(...)
					}
				}
				for _, a := range x.Args {
					if f, _ := first(a); f != "" {
						if _, isPtr := fc.typeOf(a).Underlying().(*types.Pointer); isPtr {
							touched[f] = true // g(&x.f), g(x.ptrField): handed over for modification
						}
					}
				}
			}
			return true
		})
	}
	visit(fc.decl, 0)
	var names []string
	var flatten func(s *types.Struct)
	flatten = func(s *types.Struct) {
		for i := 0; i < s.NumFields(); i++ {
			f := s.Field(i)
			if inner, ok := f.Type().Underlying().(*types.Struct); ok && f.Embedded() && !touched[f.Name()] {
				flatten(inner) // promoted fields of an embedded struct are written one by one
				continue
			}
			names = append(names, f.Name())
		}
	}
	flatten(stt)
	sort.Strings(names)
	for _, f := range names {
		if f == "_" || f == "noCopy" {
			continue
		}
		cls := ct.Classes[f]
		ok := touched[f] || (len(cls) >= 4 && cls[:4] == "kept")
		goal := T{"(= 0 0)", SBool}
		if !ok {
			goal = T{"(= 0 1)", SBool}
		}
		// each field is judged on its own path: a failed obligation is assumed afterwards and must not hide the others
		own := st.clone()
		own.pc = fc.definePC(and(st.pc, fc.fresh("rc", SBool)))
		fc.assert(own, "reset-complete", "reset-complete["+f+"]", goal, fc.decl.Pos(),
			"field "+f+" of "+ct.FieldsOf+" is written by "+fc.name+" (or by a method it calls on the receiver), or classified `kept`")
	}
	fc.assumptions["reset-complete obligations are decided structurally (which fields are written), not by the solver"] = true
}

// resetCompleteByType: the same obligation for a function that is not a method of T (a pool "acquire" that re-points a
// recycled object): a field counts as written when the function assigns `x.f` for some expression x of type T or *T
// (decided by the type checker, so a variable of another type that happens to have the same name does not count).
func (fc *FnCtx) resetCompleteByType(st *State, tname string, qualify bool) {
	ct := fc.contract
	obj := fc.pkg.Types.Scope().Lookup(tname)
	if obj == nil {
		panic(unsupported("fields " + tname + ": no such type"))
	}
	stt, ok := obj.Type().Underlying().(*types.Struct)
	if !ok {
		panic(unsupported("fields " + tname + ": not a struct"))
	}
	touched := map[string]bool{}
	isT := func(e ast.Expr) bool {
		t := fc.typeOf(e)
		if t == nil {
			return false
		}
		if p, ok := t.Underlying().(*types.Pointer); ok {
			t = p.Elem()
		}
		return typeName(t) == tname
	}
	ast.Inspect(fc.decl.Body, func(n ast.Node) bool {
		switch x := n.(type) {
		case *ast.AssignStmt:
			for _, l := range x.Lhs {
				if se, ok := l.(*ast.SelectorExpr); ok && isT(se.X) {
					touched[se.Sel.Name] = true
				}
			}
		case *ast.IncDecStmt:
			if se, ok := x.X.(*ast.SelectorExpr); ok && isT(se.X) {
				touched[se.Sel.Name] = true
			}
		}
		return true
	})
	var names []string
	for i := 0; i < stt.NumFields(); i++ {
		names = append(names, stt.Field(i).Name())
	}
	sort.Strings(names)
	for _, f := range names {
		if f == "_" || f == "noCopy" {
			continue
		}
		cls := ct.Classes[f]
		label := f
		if qualify {
			label = tname + "." + f
		}
		ok := touched[f] || (len(cls) >= 4 && cls[:4] == "kept")
		goal := T{"(= 0 0)", SBool}
		if !ok {
			goal = T{"(= 0 1)", SBool}
		}
		own := st.clone()
		own.pc = fc.definePC(and(st.pc, fc.fresh("rc", SBool)))
		fc.assert(own, "reset-complete", "reset-complete["+label+"]", goal, fc.decl.Pos(),
			"field "+f+" of a recycled "+tname+" is assigned by "+fc.name+", or classified `kept`")
	}
	fc.assumptions["reset-complete obligations are decided structurally (which fields are written), not by the solver"] = true
}
