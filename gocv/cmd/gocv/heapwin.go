package main

import (
	"fmt"
	"go/token"
	"go/types"
	"sort"
	"strings"
)

// heapWindow is a range of cells [lo, hi) of one byte region.
type heapWindow struct{ rgn, lo, hi T }

// unchangedOutside builds: every cell (r,k) of a region that existed before (r < nextBefore) and lies neither in
// one of the whole regions nor inside one of the windows holds the same byte in heap `after` as in heap `before`.
func (fc *FnCtx) unchangedOutside(before, after T, nextBefore T, rgns []T, wins []heapWindow) T {
	fc.nfr++
	r := T{fmt.Sprintf("r!%d", fc.nfr), SInt}
	fc.nfr++
	k := T{fmt.Sprintf("k!%d", fc.nfr), SInt}
	var conds []T
	if nextBefore.S != "" {
		conds = append(conds, lt(r, nextBefore))
	}
	for _, x := range rgns {
		conds = append(conds, neq(r, x))
	}
	for _, w := range wins {
		conds = append(conds, not(and(eq(r, w.rgn), le(w.lo, k), lt(k, w.hi))))
	}
	body := implies(and(conds...), eq(sel(sel(after, r), k), sel(sel(before, r), k)))
	pat := sel(sel(after, r), k)
	return T{fmt.Sprintf("(forall ((%s Int) (%s Int)) (! %s :pattern (%s)))", r.S, k.S, body.S, pat.S), SBool}
}

// havocHeapWindows forgets the listed whole regions and the cells inside the listed windows.
func (fc *FnCtx) havocHeapWindows(st *State, rgns []T, wins []heapWindow) {
	old := st.heap
	st.heap = fc.fresh("H", SHeap)
	fc.axiom(fc.unchangedOutside(old, st.heap, T{}, rgns, wins))
	// whole untouched regions are equal as arrays (cheap fact that avoids cell-level instantiation)
	fc.nfr++
	r := T{fmt.Sprintf("r!%d", fc.nfr), SInt}
	var conds []T
	for _, x := range rgns {
		conds = append(conds, neq(r, x))
	}
	for _, w := range wins {
		conds = append(conds, neq(r, w.rgn))
	}
	fc.axiom(forallInt(r.S, implies(and(conds...), eq(sel(st.heap, r), sel(old, r))), sel(st.heap, r)))
	fc.reassertConstRegions(st)
}

// promotedPath returns the field path from a struct of type t to field name, going through embedded structs
// when the field is promoted ("contentType" in RequestHeader -> ["header", "contentType"]).
func promotedPath(t types.Type, name string) []string {
	st, ok := t.Underlying().(*types.Struct)
	if !ok {
		return []string{name}
	}
	for i := 0; i < st.NumFields(); i++ {
		if st.Field(i).Name() == name {
			return []string{name}
		}
	}
	for i := 0; i < st.NumFields(); i++ {
		f := st.Field(i)
		if !f.Embedded() {
			continue
		}
		if _, isStruct := f.Type().Underlying().(*types.Struct); !isStruct {
			continue
		}
		sub := promotedPath(f.Type(), name)
		if len(sub) > 1 || fieldType(f.Type(), name) != nil {
			return append([]string{f.Name()}, sub...)
		}
	}
	return []string{name}
}

// zeroOffsets gives offset 0 (the literal) to the byte slices and strings reachable from an entry value.
func (fc *FnCtx) zeroOffsets(st *State, v Val, depth int) Val {
	if depth > 6 {
		return v
	}
	switch x := v.(type) {
	case VSlice:
		if isHeapElem(x.Elem) {
			fc.axiom(eq(x.Off, mkInt(0)))
			x.Off = mkInt(0)
			return x
		}
	case VStr:
		fc.axiom(eq(x.Off, mkInt(0)))
		x.Off = mkInt(0)
		return x
	case VPtr:
		if x.Obj >= 0 {
			if tv, ok := st.objs[x.Obj]; ok {
				st.objs[x.Obj] = fc.zeroOffsets(st, tv, depth+1)
			}
		}
	case VStruct:
		nf := make(map[string]Val, len(x.F))
		for _, k := range sortedKeys(x.F) {
			nf[k] = fc.zeroOffsets(st, x.F[k], depth+1)
		}
		x.F = nf
		return x
	}
	return v
}

// ---------------------------------------------------------------------------
// frame as local effect obligations
//
// Instead of one quantified "nothing else changed" obligation at every return, each heap write is checked where
// it happens: the cells written must lie in a backing array allocated during the call, or inside what the
// contract lists under `modifies` (the capacity window of a slice parameter, any array reachable from a pointer
// parameter under the default contract, or a listed slice field). The heap is only ever changed through these
// operations, so cells outside them keep their entry value by construction.

type frameAllow struct {
	set    bool
	all    bool
	whole  []T
	wins   []heapWindow
	nextR0 T
}

// initFrame computes what the function under verification may write (called once, at entry).
func (fc *FnCtx) initFrame(st *State) {
	fa := &fc.frame
	fa.set = true
	fa.nextR0 = st.nextR
	ct := fc.contract
	if ct == nil || ct.ModAll || fc.lenient || ct.FrameAssumed {
		fa.all = true
		if ct != nil && ct.FrameAssumed {
			fc.assumptions["the modifies clause of "+ct.Name+" is assumed, not checked against its body (frame assumed)"] = true
		}
		return
	}
	modPaths := map[string]bool{}
	for _, m := range ct.Modifies {
		modPaths[m.String()] = true
	}
	covered := func(path string) bool {
		for m := range modPaths {
			if path == m || strings.HasPrefix(path, m+".") {
				return true
			}
		}
		return false
	}
	explicit := len(ct.Modifies) > 0 || ct.Pure
	var walk func(path string, v Val, inMod bool)
	walk = func(path string, v Val, inMod bool) {
		inMod = inMod || covered(path)
		switch x := v.(type) {
		case VSlice:
			if inMod && isHeapElem(x.Elem) {
				if !strings.Contains(path, ".") {
					fa.wins = append(fa.wins, heapWindow{x.Rgn, x.Off, add(x.Off, x.Cap)})
				} else {
					fa.whole = append(fa.whole, x.Rgn)
				}
			}
		case VPtr:
			if x.Obj >= 0 {
				if tv, ok := st.objs[x.Obj]; ok {
					walk(path, tv, inMod || !explicit)
				}
			}
		case VStruct:
			for _, k := range sortedKeys(x.F) {
				walk(path+"."+k, x.F[k], inMod)
			}
		}
	}
	names := make([]string, 0, len(fc.entryVars))
	for n := range fc.entryVars {
		names = append(names, n)
	}
	sort.Strings(names)
	for _, n := range names {
		walk(n, fc.entryVars[n], false)
	}
}

// frameWrite asserts that writing cells [lo,hi) of region rgn (under guard) is permitted by the contract.
func (fc *FnCtx) frameWrite(st *State, guard, rgn, lo, hi T, p token.Pos, what string) {
	fa := &fc.frame
	if !fa.set || fa.all || !fc.safetyActive() {
		return
	}
	alts := []T{ge(rgn, fa.nextR0), le(hi, lo)}
	for _, w := range fa.whole {
		alts = append(alts, eq(rgn, w))
	}
	for _, w := range fa.wins {
		alts = append(alts, and(eq(rgn, w.rgn), le(w.lo, lo), le(hi, w.hi)))
	}
	fc.assert(st, "frame", "frame["+what+"]", implies(guard, or(alts...)), p, "writes stay inside what the contract lists under modifies")
}

// frameWriteRegion: a whole region may be written (call-site havoc of a region).
func (fc *FnCtx) frameWriteRegion(st *State, rgn T, p token.Pos, what string) {
	fa := &fc.frame
	if !fa.set || fa.all || !fc.safetyActive() {
		return
	}
	alts := []T{ge(rgn, fa.nextR0), eq(rgn, mkInt(0))}
	for _, w := range fa.whole {
		alts = append(alts, eq(rgn, w))
	}
	fc.assert(st, "frame", "frame["+what+"]", or(alts...), p, "writes stay inside what the contract lists under modifies")
}
