package main

import (
	"fmt"
	"go/types"
)

// heapWindow is a range of cells [lo, hi) of one byte region.
type heapWindow struct{ rgn, lo, hi T }

// unchangedOutside builds: every cell (r,k) of a region that existed before (r < nextBefore) and lies neither in
// one of the whole regions nor inside one of the windows holds the same byte in heap `after` as in heap `before`.
func (fc *FnCtx) unchangedOutside(before, after T, nextBefore T, rgns []T, wins []heapWindow) T {
	fc.nfr++
	r := T{fmt.Sprintf("r!%d", fc.nfr), SInt}
	fc.nfr++
	k := T{fmt.Sprintf("k!%d", fc.nfr), SInt}
	var conds []T
	if nextBefore.S != "" {
		conds = append(conds, lt(r, nextBefore))
	}
	for _, x := range rgns {
		conds = append(conds, neq(r, x))
	}
	for _, w := range wins {
		conds = append(conds, not(and(eq(r, w.rgn), le(w.lo, k), lt(k, w.hi))))
	}
	body := implies(and(conds...), eq(sel(sel(after, r), k), sel(sel(before, r), k)))
	pat := sel(sel(after, r), k)
	return T{fmt.Sprintf("(forall ((%s Int) (%s Int)) (! %s :pattern (%s)))", r.S, k.S, body.S, pat.S), SBool}
}

// havocHeapWindows forgets the listed whole regions and the cells inside the listed windows.
func (fc *FnCtx) havocHeapWindows(st *State, rgns []T, wins []heapWindow) {
	old := st.heap
	st.heap = fc.fresh("H", SHeap)
	fc.axiom(fc.unchangedOutside(old, st.heap, T{}, rgns, wins))
	// whole untouched regions are equal as arrays (cheap fact that avoids cell-level instantiation)
	fc.nfr++
	r := T{fmt.Sprintf("r!%d", fc.nfr), SInt}
	var conds []T
	for _, x := range rgns {
		conds = append(conds, neq(r, x))
	}
	for _, w := range wins {
		conds = append(conds, neq(r, w.rgn))
	}
	fc.axiom(forallInt(r.S, implies(and(conds...), eq(sel(st.heap, r), sel(old, r))), sel(st.heap, r)))
	fc.reassertConstRegions(st)
}

// promotedPath returns the field path from a struct of type t to field name, going through embedded structs
// when the field is promoted ("contentType" in RequestHeader -> ["header", "contentType"]).
func promotedPath(t types.Type, name string) []string {
	st, ok := t.Underlying().(*types.Struct)
	if !ok {
		return []string{name}
	}
	for i := 0; i < st.NumFields(); i++ {
		if st.Field(i).Name() == name {
			return []string{name}
		}
	}
	for i := 0; i < st.NumFields(); i++ {
		f := st.Field(i)
		if !f.Embedded() {
			continue
		}
		if _, isStruct := f.Type().Underlying().(*types.Struct); !isStruct {
			continue
		}
		sub := promotedPath(f.Type(), name)
		if len(sub) > 1 || fieldType(f.Type(), name) != nil {
			return append([]string{f.Name()}, sub...)
		}
	}
	return []string{name}
}
