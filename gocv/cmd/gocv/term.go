package main

import (
	"fmt"
	"math/big"
	"strings"
)

// Sort of an SMT term.
type Sort int

const (
	SInt  Sort = iota
	SBool      // Bool
	SArr       // (Array Int Int)        one byte/int region
	SHeap      // (Array Int (Array Int Int))  region id -> cells
	SArrB      // (Array Int Bool)
)

func (s Sort) String() string {
	switch s {
	case SInt:
		return "Int"
	case SBool:
		return "Bool"
	case SArr:
		return "(Array Int Int)"
	case SHeap:
		return "(Array Int (Array Int Int))"
	case SArrB:
		return "(Array Int Bool)"
	}
	return "?"
}

// T is an SMT term with its sort.
type T struct {
	S    string
	Sort Sort
}

var (
	tTrue  = T{"true", SBool}
	tFalse = T{"false", SBool}
)

func mkInt(n int64) T {
	if n < 0 {
		return T{fmt.Sprintf("(- %d)", -n), SInt}
	}
	return T{fmt.Sprintf("%d", n), SInt}
}

func mkBig(n *big.Int) T {
	if n.Sign() < 0 {
		return T{"(- " + new(big.Int).Neg(n).String() + ")", SInt}
	}
	return T{n.String(), SInt}
}

func pow2(k uint) *big.Int { return new(big.Int).Lsh(big.NewInt(1), k) }

func mkBool(b bool) T {
	if b {
		return tTrue
	}
	return tFalse
}

func app(sort Sort, op string, args ...T) T {
	var sb strings.Builder
	sb.WriteByte('(')
	sb.WriteString(op)
	for _, a := range args {
		sb.WriteByte(' ')
		sb.WriteString(a.S)
	}
	sb.WriteByte(')')
	return T{sb.String(), sort}
}

func add(a, b T) T {
	if a.S == "0" {
		return b
	}
	if b.S == "0" {
		return a
	}
	return app(SInt, "+", a, b)
}
func sub(a, b T) T {
	if b.S == "0" {
		return a
	}
	return app(SInt, "-", a, b)
}
func mul(a, b T) T  { return app(SInt, "*", a, b) }
func idiv(a, b T) T { return app(SInt, "div", a, b) }
func imod(a, b T) T { return app(SInt, "mod", a, b) }
func neg(a T) T     { return app(SInt, "-", a) }
func lt(a, b T) T   { return app(SBool, "<", a, b) }
func le(a, b T) T   { return app(SBool, "<=", a, b) }
func gt(a, b T) T   { return app(SBool, ">", a, b) }
func ge(a, b T) T   { return app(SBool, ">=", a, b) }
func eq(a, b T) T {
	if a.S == b.S {
		return tTrue
	}
	return app(SBool, "=", a, b)
}
func neq(a, b T) T { return not(eq(a, b)) }
func not(a T) T {
	switch a.S {
	case "true":
		return tFalse
	case "false":
		return tTrue
	}
	if strings.HasPrefix(a.S, "(not ") {
		return T{a.S[5 : len(a.S)-1], SBool}
	}
	return app(SBool, "not", a)
}
func and(xs ...T) T {
	var ys []T
	for _, x := range xs {
		if x.S == "true" {
			continue
		}
		if x.S == "false" {
			return tFalse
		}
		ys = append(ys, x)
	}
	switch len(ys) {
	case 0:
		return tTrue
	case 1:
		return ys[0]
	}
	return app(SBool, "and", ys...)
}
func or(xs ...T) T {
	var ys []T
	for _, x := range xs {
		if x.S == "false" {
			continue
		}
		if x.S == "true" {
			return tTrue
		}
		ys = append(ys, x)
	}
	switch len(ys) {
	case 0:
		return tFalse
	case 1:
		return ys[0]
	}
	return app(SBool, "or", ys...)
}
func implies(a, b T) T {
	if a.S == "true" {
		return b
	}
	if a.S == "false" || b.S == "true" {
		return tTrue
	}
	return app(SBool, "=>", a, b)
}
func ite(c, a, b T) T {
	if c.S == "true" {
		return a
	}
	if c.S == "false" {
		return b
	}
	if a.S == b.S {
		return a
	}
	return app(a.Sort, "ite", c, a, b)
}
func sel(arr, i T) T {
	switch arr.Sort {
	case SHeap:
		return app(SArr, "select", arr, i)
	case SArrB:
		return app(SBool, "select", arr, i)
	}
	return app(SInt, "select", arr, i)
}
func store(arr, i, v T) T { return app(arr.Sort, "store", arr, i, v) }

// inRange returns lo <= x < hi as a term.
func inRange(x T, lo, hi T) T { return and(le(lo, x), lt(x, hi)) }

// forall over one Int variable with an optional pattern.
func forallInt(v string, body T, pats ...T) T {
	if len(pats) == 0 {
		return T{fmt.Sprintf("(forall ((%s Int)) %s)", v, body.S), SBool}
	}
	var ps []string
	for _, p := range pats {
		ps = append(ps, "("+p.S+")")
	}
	return T{fmt.Sprintf("(forall ((%s Int)) (! %s :pattern %s))", v, body.S, strings.Join(ps, " :pattern ")), SBool}
}
func existsInt(v string, body T) T {
	return T{fmt.Sprintf("(exists ((%s Int)) %s)", v, body.S), SBool}
}
