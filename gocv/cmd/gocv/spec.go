package main

import (
	"fmt"
	"os"
	"path/filepath"
	"sort"
	"strconv"
	"strings"
)

// ---------------------------------------------------------------------------
// Contract expression AST

type SExpr interface{ String() string }

type (
	SLit   struct{ Val string }  // integer literal (decimal text)
	SBoolL struct{ Val bool }    // true / false
	SStr   struct{ Val string }  // string literal (decoded)
	SNil   struct{}              // nil
	SId    struct{ Name string } // identifier
	SSel   struct {
		X   SExpr
		Sel string
	} // x.f
	SIdx   struct{ X, I SExpr }      // x[i]
	SSlice struct{ X, Lo, Hi SExpr } // x[lo:hi], Lo/Hi may be nil
	SCall  struct {
		Fn   string
		Args []SExpr
	} // f(args) (Fn may be dotted)
	SUn struct {
		Op string
		X  SExpr
	}
	SBin struct {
		Op   string
		L, R SExpr
	}
	SCond  struct{ C, A, B SExpr }
	SQuant struct {
		Forall         bool
		Var            string
		Lo, Hi         SExpr
		LoOpen, HiOpen bool // (lo  ..  hi)
		Body           SExpr
	}
	SOld struct{ X SExpr }
)

func (e SLit) String() string   { return e.Val }
func (e SBoolL) String() string { return fmt.Sprint(e.Val) }
func (e SStr) String() string   { return strconv.Quote(e.Val) }
func (e SNil) String() string   { return "nil" }
func (e SId) String() string    { return e.Name }
func (e SSel) String() string   { return e.X.String() + "." + e.Sel }
func (e SIdx) String() string   { return e.X.String() + "[" + e.I.String() + "]" }
func (e SSlice) String() string {
	lo, hi := "", ""
	if e.Lo != nil {
		lo = e.Lo.String()
	}
	if e.Hi != nil {
		hi = e.Hi.String()
	}
	return e.X.String() + "[" + lo + ":" + hi + "]"
}
func (e SCall) String() string {
	var as []string
	for _, a := range e.Args {
		as = append(as, a.String())
	}
	return e.Fn + "(" + strings.Join(as, ", ") + ")"
}
func (e SUn) String() string  { return e.Op + e.X.String() }
func (e SBin) String() string { return "(" + e.L.String() + " " + e.Op + " " + e.R.String() + ")" }
func (e SCond) String() string {
	return "(" + e.C.String() + " ? " + e.A.String() + " : " + e.B.String() + ")"
}
func (e SQuant) String() string {
	q := "exists"
	if e.Forall {
		q = "forall"
	}
	l, r := "[", ")"
	if e.LoOpen {
		l = "("
	}
	if !e.HiOpen {
		r = "]"
	}
	return fmt.Sprintf("(%s %s in %s%s,%s%s: %s)", q, e.Var, l, e.Lo, e.Hi, r, e.Body)
}
func (e SOld) String() string { return "old(" + e.X.String() + ")" }

// ---------------------------------------------------------------------------
// Tokenizer

type tok struct {
	kind string // "id", "int", "str", "char", "op", "eof"
	text string
}

func lexSpec(s string) ([]tok, error) {
	var toks []tok
	i := 0
	for i < len(s) {
		c := s[i]
		switch {
		case c == ' ' || c == '\t':
			i++
		case c >= '0' && c <= '9':
			j := i
			if c == '0' && j+1 < len(s) && (s[j+1] == 'x' || s[j+1] == 'X') {
				j += 2
				for j < len(s) && isHexCh(s[j]) {
					j++
				}
				v, err := strconv.ParseUint(s[i+2:j], 16, 64)
				if err != nil {
					return nil, err
				}
				toks = append(toks, tok{"int", strconv.FormatUint(v, 10)})
			} else {
				for j < len(s) && (s[j] >= '0' && s[j] <= '9' || s[j] == '_') {
					j++
				}
				toks = append(toks, tok{"int", strings.ReplaceAll(s[i:j], "_", "")})
			}
			i = j
		case c == '_' || c >= 'a' && c <= 'z' || c >= 'A' && c <= 'Z':
			j := i
			for j < len(s) && (s[j] == '_' || s[j] == '$' || s[j] >= 'a' && s[j] <= 'z' || s[j] >= 'A' && s[j] <= 'Z' || s[j] >= '0' && s[j] <= '9') {
				j++
			}
			toks = append(toks, tok{"id", s[i:j]})
			i = j
		case c == '"':
			j := i + 1
			for j < len(s) && s[j] != '"' {
				if s[j] == '\\' {
					j++
				}
				j++
			}
			if j >= len(s) {
				return nil, fmt.Errorf("unterminated string")
			}
			v, err := strconv.Unquote(s[i : j+1])
			if err != nil {
				return nil, fmt.Errorf("bad string %s: %v", s[i:j+1], err)
			}
			toks = append(toks, tok{"str", v})
			i = j + 1
		case c == '\'':
			j := i + 1
			for j < len(s) && s[j] != '\'' {
				if s[j] == '\\' {
					j++
				}
				j++
			}
			if j >= len(s) {
				return nil, fmt.Errorf("unterminated char")
			}
			v, _, _, err := strconv.UnquoteChar(s[i+1:j], '\'')
			if err != nil {
				return nil, fmt.Errorf("bad char %s: %v", s[i:j+1], err)
			}
			toks = append(toks, tok{"int", strconv.Itoa(int(v))})
			i = j + 1
		default:
			ops := []string{"<==>", "==>", "&&", "||", "==", "!=", "<=", ">=", "<<", ">>", "++",
				"+", "-", "*", "/", "%", "<", ">", "!", "(", ")", "[", "]", ",", ":", "?", ".", "&", "|", "=", "{", "}"}
			matched := false
			for _, op := range ops {
				if strings.HasPrefix(s[i:], op) {
					toks = append(toks, tok{"op", op})
					i += len(op)
					matched = true
					break
				}
			}
			if !matched {
				return nil, fmt.Errorf("unexpected character %q in %q", c, s)
			}
		}
	}
	toks = append(toks, tok{"eof", ""})
	return toks, nil
}

func isHexCh(c byte) bool {
	return c >= '0' && c <= '9' || c >= 'a' && c <= 'f' || c >= 'A' && c <= 'F'
}

// ---------------------------------------------------------------------------
// Pratt parser

type sparser struct {
	toks []tok
	pos  int
	src  string
}

func parseSpecExpr(s string) (e SExpr, err error) {
	toks, err := lexSpec(s)
	if err != nil {
		return nil, err
	}
	p := &sparser{toks: toks, src: s}
	defer func() {
		if r := recover(); r != nil {
			if pe, ok := r.(parseErr); ok {
				err = fmt.Errorf("%s in %q", string(pe), s)
				return
			}
			panic(r)
		}
	}()
	e = p.expr(0)
	if p.peek().kind != "eof" {
		p.fail("unexpected token %q", p.peek().text)
	}
	return e, nil
}

type parseErr string

func (p *sparser) fail(f string, a ...any) { panic(parseErr(fmt.Sprintf(f, a...))) }
func (p *sparser) peek() tok               { return p.toks[p.pos] }
func (p *sparser) next() tok               { t := p.toks[p.pos]; p.pos++; return t }
func (p *sparser) isOp(op string) bool     { t := p.peek(); return t.kind == "op" && t.text == op }
func (p *sparser) expect(op string) {
	if !p.isOp(op) {
		p.fail("expected %q, found %q", op, p.peek().text)
	}
	p.pos++
}

var binPrec = map[string]int{
	"<==>": 1, "==>": 2, "?": 3, "||": 4, "&&": 5,
	"==": 6, "!=": 6, "<": 6, "<=": 6, ">": 6, ">=": 6,
	"+": 7, "-": 7, "|": 7, "++": 7,
	"*": 8, "/": 8, "%": 8, "<<": 8, ">>": 8, "&": 8,
}

func (p *sparser) expr(minPrec int) SExpr {
	lhs := p.unary()
	for {
		t := p.peek()
		if t.kind != "op" {
			break
		}
		prec, ok := binPrec[t.text]
		if !ok || prec < minPrec {
			break
		}
		p.pos++
		switch t.text {
		case "?":
			a := p.expr(0)
			p.expect(":")
			b := p.expr(prec)
			lhs = SCond{lhs, a, b}
		case "==>", "<==>":
			rhs := p.expr(prec) // right assoc
			lhs = SBin{t.text, lhs, rhs}
		default:
			rhs := p.expr(prec + 1)
			lhs = SBin{t.text, lhs, rhs}
		}
	}
	return lhs
}

func (p *sparser) unary() SExpr {
	t := p.peek()
	if t.kind == "op" && (t.text == "!" || t.text == "-") {
		p.pos++
		x := p.unary()
		return SUn{t.text, x}
	}
	return p.postfix(p.primary())
}

func (p *sparser) primary() SExpr {
	t := p.next()
	switch t.kind {
	case "int":
		return SLit{t.text}
	case "str":
		return SStr{t.text}
	case "id":
		switch t.text {
		case "true":
			return SBoolL{true}
		case "false":
			return SBoolL{false}
		case "nil":
			return SNil{}
		case "forall", "exists":
			v := p.next()
			if v.kind != "id" {
				p.fail("quantifier variable expected")
			}
			in := p.next()
			if in.text != "in" {
				p.fail("expected 'in' after quantifier variable")
			}
			q := SQuant{Forall: t.text == "forall", Var: v.text}
			o := p.next()
			switch o.text {
			case "[":
			case "(":
				q.LoOpen = true
			default:
				p.fail("expected [ or ( to open range")
			}
			q.Lo = p.expr(0)
			p.expect(",")
			q.Hi = p.expr(0)
			c := p.next()
			switch c.text {
			case ")":
				q.HiOpen = true
			case "]":
			default:
				p.fail("expected ) or ] to close range")
			}
			p.expect(":")
			q.Body = p.expr(0)
			return q
		case "old":
			p.expect("(")
			x := p.expr(0)
			p.expect(")")
			return SOld{x}
		}
		return SId{t.text}
	case "op":
		if t.text == "(" {
			e := p.expr(0)
			p.expect(")")
			return e
		}
	}
	p.fail("unexpected token %q", t.text)
	return nil
}

func (p *sparser) postfix(x SExpr) SExpr {
	for {
		switch {
		case p.isOp("."):
			p.pos++
			t := p.next()
			if t.kind != "id" {
				p.fail("field name expected after '.'")
			}
			x = SSel{x, t.text}
		case p.isOp("["):
			p.pos++
			var lo, hi SExpr
			if p.isOp(":") {
				p.pos++
				if !p.isOp("]") {
					hi = p.expr(0)
				}
				p.expect("]")
				x = SSlice{x, nil, hi}
				continue
			}
			lo = p.expr(0)
			if p.isOp(":") {
				p.pos++
				if !p.isOp("]") {
					hi = p.expr(0)
				}
				p.expect("]")
				x = SSlice{x, lo, hi}
				continue
			}
			p.expect("]")
			x = SIdx{x, lo}
		case p.isOp("("):
			name := dottedName(x)
			if name == "" {
				p.fail("call of non-name")
			}
			p.pos++
			var args []SExpr
			for !p.isOp(")") {
				args = append(args, p.expr(0))
				if p.isOp(",") {
					p.pos++
				}
			}
			p.expect(")")
			x = SCall{name, args}
		default:
			return x
		}
	}
}

func dottedName(x SExpr) string {
	switch v := x.(type) {
	case SId:
		return v.Name
	case SSel:
		if b := dottedName(v.X); b != "" {
			return b + "." + v.Sel
		}
	}
	return ""
}

// ---------------------------------------------------------------------------
// Contract files

type Clause struct {
	Kind  string // requires, ensures, invariant, assert
	Label string
	Props []string // nil = inherit
	Expr  SExpr
	Src   string
	File  string
	Line  int
}

type LoopSpec struct {
	N          int
	Invariants []*Clause
	Decreases  SExpr
	DecSrc     string
	Iter       []Effect  // ghost updates performed at the start of every iteration
	AtEnd      []*Clause // obligations at the end of every iteration (back edge only)
}

type GhostDecl struct {
	Name string
	Type string // int, bool
	Init SExpr
}

type Effect struct {
	Target string // ghost var name
	Expr   SExpr  // nil = havoc
}

// OnCall describes what a call to Callee means inside a skeleton-mode function.
type OnCall struct {
	Callee   string // qualified name pattern: "(*Server).setState", "bufio.Reader.Peek", "go:hijackConnHandler", "field:Handler"
	Params   []string
	Results  []string
	Requires []*Clause
	Effects  []Effect
	Ensures  []*Clause
	Havoc    bool
	NoHavoc  bool
	HeapOnly bool     // `havoc heap`: byte regions may change, object fields do not
	Also     bool     // extra preconditions only: the callee's own contract (or the unknown-call rule) still applies
	Site     int      // 0 = every call site; k = only the k-th call site (source order)
	Modifies []string // field paths rooted at a Go variable that the callee may change even though they are `stable`
	Returns  SExpr
	Line     int
}

// ElemPtrSpec: a pointer result that addresses an element of a slice (result or parameter).
type ElemPtrSpec struct {
	Res        string
	Slice, Idx SExpr
}

type SpecParam struct {
	Name string
	Type string // int, bool, byte, seq ([]byte or string)
}

type SpecFunc struct {
	Name   string
	Params []SpecParam
	Ret    string
	Body   SExpr
	Rec    bool
	Src    string
}

type FuncContract struct {
	Name         string // as written
	Pkg          string // package path of the contract file (or "" for library specs)
	Props        []string
	Safety       []string // properties that own auto safety obligations; nil = Props
	Mode         string   // "", "wrap"
	Skeleton     bool
	Trusted      bool
	IntSizes     []int
	ResNames     []string
	Requires     []*Clause
	Ensures      []*Clause
	Modifies     []SExpr
	ModAll       bool
	FrameAssumed bool // `frame assumed`: the modifies list is used at call sites but not checked against the body
	Pure         bool
	Loops        map[int]*LoopSpec
	Holds        []string      // `holds x.lock`: the function is entered (and left) with this monitored lock held
	ElemPtrs     []ElemPtrSpec // `elemptr res slice idx`: pointer result res is &slice[idx]
	Maintain     []*Clause     // running invariants: proved, then assumed, after every top-level statement of the body
	Ghosts       []GhostDecl
	OnCalls      []*OnCall
	Stable       []string
	MayAlias     bool
	NoOverflow   bool // add/sub results are assumed in range (skeleton functions with counters)
	NoTerm       bool
	AtReturn     []*Clause
	File         string
	Line         int
	FieldsOf     string            // "reset-complete" style checks: type name
	Classes      map[string]string // field -> class
	Anchors      []string
	Unfolds      []*Clause
	Panics       bool // function may panic by contract (panic is not an obligation)
	Lemma        bool // no Go body: the ensures clauses are proved from the requires clauses alone
	LemmaParams  []SpecParam
	Calls        []LemmaCall // lemma body: straight-line calls of contracted functions
	Uses         []string    // lemmas whose conclusions are assumed at entry
	Synth        bool        // synthesised from a typeinv block
}

// LemmaCall is one step "call r1, r2 := F(args)" of a lemma body.
type LemmaCall struct {
	Results []string
	Fn      string
	Args    []SExpr
	Line    int
}

type ContractDB struct {
	Funcs    map[string]*FuncContract // key: pkgpath + "::" + name  (library: name only)
	Specs    map[string]*SpecFunc
	Files    []string
	Errs     []string
	TypeInvs []*TypeInv
}

func newDB() *ContractDB {
	return &ContractDB{Funcs: map[string]*FuncContract{}, Specs: map[string]*SpecFunc{}}
}

// joinContinuation decides whether line b continues line a.
func continues(prev, cur string) bool {
	p := strings.TrimSpace(prev)
	c := strings.TrimSpace(cur)
	if p == "" || c == "" {
		return false
	}
	for _, s := range []string{"&&", "||", "==>", "<==>", "(", ",", "+", "-", "=", "?", ":"} {
		if strings.HasSuffix(p, s) {
			// "loop 1:" and "on call X:" end with ':' but are headers
			if s == ":" && (strings.HasPrefix(p, "loop ") || strings.HasPrefix(p, "on ") || strings.HasPrefix(p, "at ")) {
				return false
			}
			return true
		}
	}
	for _, s := range []string{"&&", "||", "==>", "<==>", ")", "?", ": "} {
		if strings.HasPrefix(c, s) {
			return true
		}
	}
	return false
}

func (db *ContractDB) loadFile(path, pkgPath string) {
	data, err := os.ReadFile(path)
	if err != nil {
		db.Errs = append(db.Errs, err.Error())
		return
	}
	db.Files = append(db.Files, path)
	type ln struct {
		text string
		no   int
	}
	var lines []ln
	for i, l := range strings.Split(string(data), "\n") {
		t := strings.TrimSpace(l)
		if !strings.HasPrefix(t, "//@") {
			continue
		}
		body := t[3:]
		if k := strings.Index(body, " //"); k >= 0 && !strings.Contains(body[k:], "\"") {
			body = body[:k]
		}
		if strings.TrimSpace(body) == "" {
			continue
		}
		if len(lines) > 0 && continues(lines[len(lines)-1].text, body) {
			lines[len(lines)-1].text += " " + strings.TrimSpace(body)
			continue
		}
		lines = append(lines, ln{strings.TrimSpace(body), i + 1})
	}
	var cur *FuncContract
	var curTI *TypeInv
	var curLoop *LoopSpec
	var curOn *OnCall
	errf := func(no int, f string, a ...any) {
		db.Errs = append(db.Errs, fmt.Sprintf("%s:%d: %s", path, no, fmt.Sprintf(f, a...)))
	}
	parseClause := func(kind, rest string, no int) *Clause {
		c := &Clause{Kind: kind, File: path, Line: no}
		rest = strings.TrimSpace(rest)
		if strings.HasPrefix(rest, "[") {
			k := strings.Index(rest, "]")
			if k > 0 {
				c.Label = rest[1:k]
				rest = strings.TrimSpace(rest[k+1:])
			}
		}
		for strings.HasPrefix(rest, "@") {
			k := strings.IndexAny(rest, " \t")
			if k < 0 {
				break
			}
			c.Props = append(c.Props, strings.Split(rest[1:k], ",")...)
			rest = strings.TrimSpace(rest[k:])
		}
		c.Src = rest
		e, err := parseSpecExpr(rest)
		if err != nil {
			errf(no, "%v", err)
			return nil
		}
		c.Expr = e
		return c
	}
	for _, l := range lines {
		word, rest, _ := strings.Cut(l.text, " ")
		// keywords may carry a [label]
		kw := word
		if k := strings.Index(word, "["); k > 0 {
			kw = word[:k]
			rest = word[k:] + " " + rest
		}
		switch kw {
		case "celltype":
			// celltype T: slices of struct T live in the modelled heap (see cells.go)
			for _, n := range strings.Fields(rest) {
				cellTypes[pkgPath+"::"+n] = true
			}
		case "spec":
			sf, err := parseSpecFunc(rest)
			if err != nil {
				errf(l.no, "%v", err)
				continue
			}
			sf.Src = rest
			db.Specs[sf.Name] = sf
			cur, curLoop, curOn = nil, nil, nil
		case "func", "lemma":
			name := strings.TrimSpace(rest)
			fc := &FuncContract{Pkg: pkgPath, Loops: map[int]*LoopSpec{}, File: path, Line: l.no, Lemma: kw == "lemma"}
			if fc.Lemma {
				// lemma NAME(p T, q T): universally quantified parameters
				if k := strings.Index(name, "("); k >= 0 && strings.HasSuffix(name, ")") {
					for _, p := range strings.Split(name[k+1:len(name)-1], ",") {
						fs := strings.Fields(p)
						if len(fs) == 2 {
							ty := fs[1]
							if ty == "[]byte" || ty == "string" {
								ty = "seq"
							}
							fc.LemmaParams = append(fc.LemmaParams, SpecParam{fs[0], ty})
						} else if strings.TrimSpace(p) != "" {
							errf(l.no, "lemma parameter: want 'name type'")
						}
					}
					name = strings.TrimSpace(name[:k])
				}
				name = "lemma:" + name
			}
			// optional "results a b"
			if k := strings.Index(name, " results "); k >= 0 {
				fc.ResNames = strings.Fields(name[k+9:])
				name = strings.TrimSpace(name[:k])
			}
			fc.Name = name
			key := name
			if pkgPath != "" {
				key = pkgPath + "::" + name
			}
			if _, dup := db.Funcs[key]; dup {
				errf(l.no, "duplicate contract for %s", name)
			}
			db.Funcs[key] = fc
			cur, curLoop, curOn = fc, nil, nil
			curTI = nil
		case "monitor":
			fs := strings.Fields(rest)
			if len(fs) != 2 {
				errf(l.no, "monitor: want 'monitor <Type> <lockField>'")
				continue
			}
			curTI = &TypeInv{Type: normalizeFuncName(fs[0]), Lock: fs[1], Pkg: pkgPath, Skip: map[string]string{}, Only: map[string]bool{}, File: path, Line: l.no}
			db.TypeInvs = append(db.TypeInvs, curTI)
			cur, curLoop, curOn = nil, nil, nil
		case "typeinv":
			curTI = &TypeInv{Type: normalizeFuncName(strings.TrimSpace(rest)), Pkg: pkgPath, Skip: map[string]string{}, Only: map[string]bool{}, File: path, Line: l.no}
			db.TypeInvs = append(db.TypeInvs, curTI)
			cur, curLoop, curOn = nil, nil, nil
		default:
			if cur == nil && curTI != nil {
				switch kw {
				case "property":
					curTI.Props = append(curTI.Props, strings.Fields(rest)...)
				case "stable":
					curTI.Stable = append(curTI.Stable, strings.FieldsFunc(rest, func(r rune) bool { return r == ',' || r == ' ' })...)
				case "fields", "protects":
					curTI.Fields = append(curTI.Fields, strings.FieldsFunc(rest, func(r rune) bool { return r == ',' || r == ' ' })...)
				case "inv":
					if c := parseClause("inv", rest, l.no); c != nil {
						curTI.Inv = append(curTI.Inv, c)
					}
				case "skip":
					names, reason, _ := strings.Cut(rest, ":")
					for _, n := range strings.Fields(names) {
						curTI.Skip[n] = strings.TrimSpace(reason)
					}
				case "only":
					for _, n := range strings.Fields(rest) {
						curTI.Only[n] = true
					}
				case "foreign":
					// foreign F G: reason -- functions outside the type's mutators that may assign the fields
					names, reason, _ := strings.Cut(rest, ":")
					if curTI.Foreign == nil {
						curTI.Foreign = map[string]string{}
					}
					for _, n := range strings.Fields(names) {
						curTI.Foreign[normalizeFuncName(n)] = strings.TrimSpace(reason)
					}
				default:
					errf(l.no, "unknown typeinv keyword %q", kw)
				}
				continue
			}
			if cur == nil {
				errf(l.no, "clause outside func: %s", l.text)
				continue
			}
			switch kw {
			case "property":
				cur.Props = append(cur.Props, strings.Fields(rest)...)
			case "safety":
				cur.Safety = append(cur.Safety, strings.Fields(rest)...)
				if len(cur.Safety) == 0 {
					cur.Safety = []string{}
				}
			case "mode":
				for _, m := range strings.Fields(rest) {
					switch m {
					case "wrap":
						cur.Mode = "wrap"
					case "skeleton":
						cur.Skeleton = true
					case "exact":
					default:
						errf(l.no, "unknown mode %s", m)
					}
				}
			case "uses":
				// uses lemma NAME ...: the lemma's conclusions are assumed at entry (the lemma is proved on its own)
				for _, f := range strings.Fields(rest) {
					if f != "lemma" {
						cur.Uses = append(cur.Uses, f)
					}
				}
			case "holds":
				cur.Holds = append(cur.Holds, strings.Fields(rest)...)
			case "elemptr":
				// elemptr kv r len(h): the pointer result kv is &r[len(h)]
				fs := strings.SplitN(strings.TrimSpace(rest), " ", 3)
				if len(fs) != 3 {
					errf(l.no, "elemptr: want 'elemptr <result> <slice> <index>'")
					continue
				}
				se, err1 := parseSpecExpr(fs[1])
				ie, err2 := parseSpecExpr(fs[2])
				if err1 != nil || err2 != nil {
					errf(l.no, "elemptr: bad expression")
					continue
				}
				cur.ElemPtrs = append(cur.ElemPtrs, ElemPtrSpec{fs[0], se, ie})
			case "trusted":
				cur.Trusted = true
			case "pure":
				cur.Pure = true
			case "mayalias":
				cur.MayAlias = true
			case "nooverflow":
				cur.NoOverflow = true
			case "noterm":
				cur.NoTerm = true
			case "maypanic":
				cur.Panics = true
			case "intsize":
				for _, f := range strings.FieldsFunc(rest, func(r rune) bool { return r == ',' || r == ' ' }) {
					n, _ := strconv.Atoi(f)
					cur.IntSizes = append(cur.IntSizes, n)
				}
			case "stable":
				for _, f := range strings.FieldsFunc(rest, func(r rune) bool { return r == ',' || r == ' ' }) {
					cur.Stable = append(cur.Stable, f)
				}
			case "requires", "ensures", "invariant", "assert", "atend", "maintain":
				c := parseClause(kw, rest, l.no)
				if c == nil {
					continue
				}
				switch {
				case kw == "maintain":
					cur.Maintain = append(cur.Maintain, c)
				case kw == "atend":
					if curLoop == nil {
						errf(l.no, "atend outside loop")
						continue
					}
					curLoop.AtEnd = append(curLoop.AtEnd, c)
				case curOn != nil && kw == "requires":
					curOn.Requires = append(curOn.Requires, c)
				case curOn != nil && kw == "ensures":
					curOn.Ensures = append(curOn.Ensures, c)
				case kw == "invariant":
					if curLoop == nil {
						errf(l.no, "invariant outside loop")
						continue
					}
					curLoop.Invariants = append(curLoop.Invariants, c)
				case kw == "requires":
					cur.Requires = append(cur.Requires, c)
				case kw == "ensures":
					cur.Ensures = append(cur.Ensures, c)
				}
			case "decreases":
				if curLoop == nil {
					errf(l.no, "decreases outside loop")
					continue
				}
				if strings.TrimSpace(rest) == "none" {
					continue
				}
				e, err := parseSpecExpr(rest)
				if err != nil {
					errf(l.no, "%v", err)
					continue
				}
				curLoop.Decreases, curLoop.DecSrc = e, rest
			case "frame":
				if strings.TrimSpace(rest) != "assumed" || cur == nil {
					errf(l.no, "expected 'frame assumed'")
					continue
				}
				cur.FrameAssumed = true
			case "modifies":
				if curOn != nil {
					for _, f := range strings.FieldsFunc(rest, func(r rune) bool { return r == ',' || r == ' ' }) {
						curOn.Modifies = append(curOn.Modifies, f)
					}
					continue
				}
				if strings.TrimSpace(rest) == "*" {
					cur.ModAll = true
					continue
				}
				for _, part := range splitTop(rest) {
					e, err := parseSpecExpr(part)
					if err != nil {
						errf(l.no, "%v", err)
						continue
					}
					cur.Modifies = append(cur.Modifies, e)
				}
			case "loop":
				nstr := strings.TrimSuffix(strings.TrimSpace(rest), ":")
				n, err := strconv.Atoi(strings.TrimSpace(nstr))
				if err != nil {
					errf(l.no, "bad loop ordinal %q", rest)
					continue
				}
				curLoop = &LoopSpec{N: n}
				cur.Loops[n] = curLoop
				curOn = nil
			case "iter":
				if curLoop == nil {
					errf(l.no, "iter outside loop")
					continue
				}
				for _, part := range splitTopSemi(rest) {
					fs := strings.SplitN(part, "=", 2)
					if len(fs) != 2 {
						errf(l.no, "iter: want 'name = expr'")
						continue
					}
					ef := Effect{Target: strings.TrimSpace(fs[0])}
					if strings.TrimSpace(fs[1]) != "*" {
						e, err := parseSpecExpr(fs[1])
						if err != nil {
							errf(l.no, "%v", err)
							continue
						}
						ef.Expr = e
					}
					curLoop.Iter = append(curLoop.Iter, ef)
				}
			case "ghost":
				// ghost name type = expr
				fs := strings.SplitN(rest, "=", 2)
				nt := strings.Fields(fs[0])
				if len(nt) != 2 {
					errf(l.no, "ghost: want 'name type [= expr]'")
					continue
				}
				g := GhostDecl{Name: nt[0], Type: nt[1]}
				if len(fs) == 2 {
					e, err := parseSpecExpr(fs[1])
					if err != nil {
						errf(l.no, "%v", err)
						continue
					}
					g.Init = e
				}
				cur.Ghosts = append(cur.Ghosts, g)
				curOn = nil
			case "on":
				// on call NAME(p1, p2) -> r1, r2:
				oc, err := parseOnCall(rest)
				if err != nil {
					errf(l.no, "%v", err)
					continue
				}
				oc.Line = l.no
				cur.OnCalls = append(cur.OnCalls, oc)
				curOn = oc
				curLoop = nil
			case "effect":
				if curOn == nil {
					errf(l.no, "effect outside 'on call'")
					continue
				}
				for _, part := range splitTopSemi(rest) {
					fs := strings.SplitN(part, "=", 2)
					if len(fs) != 2 {
						errf(l.no, "effect: want 'name = expr'")
						continue
					}
					ef := Effect{Target: strings.TrimSpace(fs[0])}
					if strings.TrimSpace(fs[1]) != "*" {
						e, err := parseSpecExpr(fs[1])
						if err != nil {
							errf(l.no, "%v", err)
							continue
						}
						ef.Expr = e
					}
					curOn.Effects = append(curOn.Effects, ef)
				}
			case "havoc":
				// inside `on call`: besides the declared effects the callee may change any object or byte region
				if curOn == nil {
					errf(l.no, "havoc outside 'on call'")
					continue
				}
				if strings.TrimSpace(rest) == "heap" {
					// `havoc heap`: byte regions may change, object fields do not
					curOn.NoHavoc = true
					curOn.HeapOnly = true
					continue
				}
				curOn.Havoc = true
			case "nohavoc":
				if curOn == nil {
					errf(l.no, "nohavoc outside 'on call'")
					continue
				}
				curOn.NoHavoc = true
			case "also":
				if curOn == nil {
					errf(l.no, "also outside 'on call'")
					continue
				}
				curOn.Also = true
			case "returns":
				if curOn == nil {
					errf(l.no, "returns outside 'on call'")
					continue
				}
				e, err := parseSpecExpr(rest)
				if err != nil {
					errf(l.no, "%v", err)
					continue
				}
				curOn.Returns = e
			case "call":
				// call r1, r2 := F(args)     (lemma bodies only)
				lhs, rhs, ok := strings.Cut(rest, ":=")
				if !ok {
					lhs, rhs = "", rest
				}
				e, err := parseSpecExpr(rhs)
				if err != nil {
					errf(l.no, "%v", err)
					continue
				}
				ce, isCall := e.(SCall)
				if !isCall {
					errf(l.no, "call: want 'r := F(args)'")
					continue
				}
				lc := LemmaCall{Fn: ce.Fn, Args: ce.Args, Line: l.no}
				for _, f := range strings.Split(lhs, ",") {
					if strings.TrimSpace(f) != "" {
						lc.Results = append(lc.Results, strings.TrimSpace(f))
					}
				}
				cur.Calls = append(cur.Calls, lc)
			case "end":
				curOn, curLoop = nil, nil
			case "fields":
				// fields reset-complete   |  class <field> <class words>
				cur.FieldsOf = strings.TrimSpace(rest)
			case "class":
				fs := strings.Fields(rest)
				if len(fs) < 2 {
					errf(l.no, "class: want 'field class'")
					continue
				}
				if cur.Classes == nil {
					cur.Classes = map[string]string{}
				}
				cur.Classes[fs[0]] = strings.Join(fs[1:], " ")
			default:
				errf(l.no, "unknown contract keyword %q", kw)
			}
		}
	}
}

func splitTop(s string) []string {
	var parts []string
	depth := 0
	last := 0
	for i, c := range s {
		switch c {
		case '(', '[':
			depth++
		case ')', ']':
			depth--
		case ',':
			if depth == 0 {
				parts = append(parts, strings.TrimSpace(s[last:i]))
				last = i + 1
			}
		}
	}
	if strings.TrimSpace(s[last:]) != "" {
		parts = append(parts, strings.TrimSpace(s[last:]))
	}
	return parts
}

func splitTopSemi(s string) []string {
	var parts []string
	for _, p := range strings.Split(s, ";") {
		if strings.TrimSpace(p) != "" {
			parts = append(parts, strings.TrimSpace(p))
		}
	}
	return parts
}

func parseOnCall(rest string) (*OnCall, error) {
	rest = strings.TrimSpace(strings.TrimSuffix(strings.TrimSpace(rest), ":"))
	kind, r2, _ := strings.Cut(rest, " ")
	if kind != "call" && kind != "go" && kind != "defer" && kind != "index" && kind != "send" && kind != "recv" {
		return nil, fmt.Errorf("on: want 'on call|go|index|send|recv NAME(...)'")
	}
	r2 = strings.TrimSpace(r2)
	oc := &OnCall{}
	if k := strings.Index(r2, "->"); k >= 0 {
		for _, f := range strings.Split(r2[k+2:], ",") {
			oc.Results = append(oc.Results, strings.TrimSpace(f))
		}
		r2 = strings.TrimSpace(r2[:k])
	}
	if k := strings.LastIndex(r2, "("); k >= 0 && strings.HasSuffix(r2, ")") && !strings.HasPrefix(r2[k:], "(*") {
		ps := r2[k+1 : len(r2)-1]
		for _, f := range strings.Split(ps, ",") {
			if strings.TrimSpace(f) != "" {
				oc.Params = append(oc.Params, strings.TrimSpace(f))
			}
		}
		r2 = strings.TrimSpace(r2[:k])
	}
	// "F#k": only the k-th call site of F
	if k := strings.LastIndex(r2, "#"); k > 0 {
		if n, err := strconv.Atoi(r2[k+1:]); err == nil && n > 0 {
			oc.Site = n
			r2 = r2[:k]
		}
	}
	oc.Callee = r2
	if kind == "send" || kind == "recv" {
		// on send CH / on recv CH: every send to / receive from channel variable CH (also inside select)
		oc.Callee = kind + ":" + r2
	}
	if kind == "index" {
		// on index S(k): every read or write S[k] of slice variable S
		oc.Callee = "index:" + r2
	}
	if kind == "go" {
		oc.Callee = "go:" + r2
	}
	return oc, nil
}

func parseSpecFunc(rest string) (*SpecFunc, error) {
	// NAME(p T, q T) T = body
	k := strings.Index(rest, "(")
	if k < 0 {
		return nil, fmt.Errorf("spec: missing (")
	}
	sf := &SpecFunc{Name: strings.TrimSpace(rest[:k])}
	j := strings.Index(rest, ")")
	if j < k {
		return nil, fmt.Errorf("spec: missing )")
	}
	for _, p := range strings.Split(rest[k+1:j], ",") {
		fs := strings.Fields(p)
		if len(fs) != 2 {
			return nil, fmt.Errorf("spec param: want 'name type' in %q", p)
		}
		ty := fs[1]
		switch ty {
		case "[]byte", "string", "seq":
			ty = "seq"
		case "int", "bool", "byte":
		default:
			if strings.HasPrefix(ty, "[]") {
				ty = "cells:" + ty[2:] // a slice of a `celltype` struct
				break
			}
			return nil, fmt.Errorf("spec param type %q unsupported", ty)
		}
		sf.Params = append(sf.Params, SpecParam{fs[0], ty})
	}
	tail := strings.TrimSpace(rest[j+1:])
	rt, body, ok := strings.Cut(tail, "=")
	if !ok {
		return nil, fmt.Errorf("spec: missing '= body'")
	}
	// careful: "==" inside body; Cut on first '=' only valid if ret type has none
	sf.Ret = strings.TrimSpace(rt)
	if sf.Ret != "int" && sf.Ret != "bool" {
		return nil, fmt.Errorf("spec return type %q unsupported", sf.Ret)
	}
	e, err := parseSpecExpr(body)
	if err != nil {
		return nil, err
	}
	sf.Body = e
	sf.Rec = mentionsCall(e, sf.Name)
	return sf, nil
}

func mentionsCall(e SExpr, name string) bool {
	found := false
	walkSpec(e, func(x SExpr) {
		if c, ok := x.(SCall); ok && c.Fn == name {
			found = true
		}
	})
	return found
}

func walkSpec(e SExpr, f func(SExpr)) {
	if e == nil {
		return
	}
	f(e)
	switch v := e.(type) {
	case SSel:
		walkSpec(v.X, f)
	case SIdx:
		walkSpec(v.X, f)
		walkSpec(v.I, f)
	case SSlice:
		walkSpec(v.X, f)
		walkSpec(v.Lo, f)
		walkSpec(v.Hi, f)
	case SCall:
		for _, a := range v.Args {
			walkSpec(a, f)
		}
	case SUn:
		walkSpec(v.X, f)
	case SBin:
		walkSpec(v.L, f)
		walkSpec(v.R, f)
	case SCond:
		walkSpec(v.C, f)
		walkSpec(v.A, f)
		walkSpec(v.B, f)
	case SQuant:
		walkSpec(v.Lo, f)
		walkSpec(v.Hi, f)
		walkSpec(v.Body, f)
	case SOld:
		walkSpec(v.X, f)
	}
}

// loadContracts reads every zz_contracts*_verif.go under the repo and every
// *.spec file under specDir (library contracts, trusted).
func loadContracts(repo, specDir string, pkgDirs map[string]string) *ContractDB {
	db := newDB()
	var dirs []string
	for d := range pkgDirs {
		dirs = append(dirs, d)
	}
	sort.Strings(dirs)
	for _, d := range dirs {
		ms, _ := filepath.Glob(filepath.Join(d, "zz_contracts*_verif.go"))
		sort.Strings(ms)
		for _, m := range ms {
			db.loadFile(m, pkgDirs[d])
		}
	}
	ms, _ := filepath.Glob(filepath.Join(specDir, "*.spec"))
	sort.Strings(ms)
	for _, m := range ms {
		db.loadFile(m, "")
	}
	return db
}
