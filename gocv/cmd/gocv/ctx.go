package main

import (
	"fmt"
	"go/ast"
	"go/token"
	"go/types"
	"math/big"
	"strings"

	"golang.org/x/tools/go/packages"
)

type unsupportedErr struct{ msg string }

func unsupported(msg string) unsupportedErr { return unsupportedErr{msg} }

// Obligation is one verification condition.
type Obligation struct {
	Name    string
	Kind    string // ensures, requires, invariant-entry, invariant-preserved, decreases, bounds, overflow, panic, nil, frame, canary, cover
	Func    string
	Pos     string
	Msg     string
	nDecl   int
	nFact   int
	pc      T
	goal    T
	Canary  bool // expected NOT to be unsat
	fc      *FnCtx
	Verdict Verdict
	Src     string // source text of the clause
	// values of interest for model extraction
	Witness []witnessVar
	st      *State
	Base    string // name without the ~k occurrence suffix
	Except  T      // disjunction of the input classes of matching known findings ("" = none)
	Known   []*KnownFinding
	bind    map[string]Val
	Replay  *ReplayResult
	Status  string // discharged | violation | known-finding | undischarged
}

type witnessVar struct {
	Name string
	Val  Val
	Typ  types.Type
}

// FnCtx holds everything for verifying one function.
type FnCtx struct {
	eng      *Engine
	pkg      *packages.Package
	decl     *ast.FuncDecl
	body     *ast.BlockStmt
	sig      *types.Signature
	name     string // display name
	contract *FuncContract
	prop     string // active property ("" = all)

	decls []string
	facts []string
	obls  []*Obligation
	nfr   int

	lenient bool
	wrap    bool
	intBits int

	loopOrd   map[ast.Node]int
	entry     *State
	entryVars map[string]Val // contract-visible names at entry (params, receiver)
	params    []*types.Var
	results   []*types.Var // named or synthesized
	resNames  []string

	strConsts      map[string]T    // string literal -> array const
	constRgn       map[string]int  // global []byte var name -> region id (negative)
	constRgnS      map[int]string  // region id -> content
	errCodes       map[string]int  // sentinel error name -> code
	specDecl       map[string]bool // recursive spec functions declared
	nobj           int
	defers         []deferred
	breakStk       []*jumpTarget
	oblNames       map[string]int
	havocs         int
	mapsUsed       bool // the body touches entries of an integer map (maps.go): calls may change them
	notes          []string
	assumptions    map[string]bool
	maintainN      int
	calleeUsed     map[string]bool
	addrTaken      map[types.Object]bool
	retCount       int
	inLoopBody     int
	litDepth       int
	curFn          []*funcFrame
	structDepth    int
	fieldPtrs      map[string]loc
	curScopeNode   ast.Node
	inQuant        int
	lit            *ast.FuncLit
	curEnv         *specEnv
	expandQuant    bool
	relied         map[string]bool // properties whose clauses are assumed (not asserted) in this run
	rangeIdx       []*types.Var
	staticRecvName string
	siteOrd        map[*ast.CallExpr]map[string]int
	frame          frameAllow
	curPos         token.Pos
}

// isOpaqueStruct: library structs whose fields are never inspected (time.Time, sync.Mutex, ...).
func isOpaqueStruct(t types.Type) bool {
	n, ok := t.(*types.Named)
	if !ok || n.Obj().Pkg() == nil {
		return false
	}
	p := n.Obj().Pkg().Path()
	return !strings.HasPrefix(p, "github.com/valyala/fasthttp")
}

type funcFrame struct {
	results []*types.Var
	retSts  []*State // for inlined closures: states at return
	retVals []Val
	inlined bool
}

type deferred struct {
	call *ast.CallExpr
	pc   T // path condition under which the defer was registered
	st   *State
}

type jumpTarget struct {
	label     string
	isLoop    bool
	breaks    []*State
	continues []*State
}

func (fc *FnCtx) fresh(hint string, sort Sort) T {
	fc.nfr++
	h := sanitizeSym(hint)
	name := fmt.Sprintf("%s!%d", h, fc.nfr)
	fc.decls = append(fc.decls, fmt.Sprintf("(declare-const %s %s)", name, sort))
	return T{name, sort}
}

func sanitizeSym(s string) string {
	var sb strings.Builder
	for _, c := range s {
		switch {
		case c >= 'a' && c <= 'z', c >= 'A' && c <= 'Z', c >= '0' && c <= '9', c == '_', c == '.':
			sb.WriteRune(c)
		default:
			sb.WriteByte('_')
		}
	}
	if sb.Len() == 0 {
		return "t"
	}
	r := sb.String()
	if r[0] >= '0' && r[0] <= '9' {
		r = "v" + r
	}
	if len(r) > 40 {
		r = r[:40]
	}
	return r
}

// define introduces a name for t when it is large (keeps formulas DAG-sized).
func (fc *FnCtx) define(t T, hint string) T {
	if fc.inQuant > 0 {
		return t
	}
	// heaps are always named: they occur inside quantifier patterns, where `ite`/`store` terms are not allowed
	if len(t.S) <= 48 && !(t.Sort == SHeap && strings.HasPrefix(t.S, "(")) {
		return t
	}
	n := fc.fresh(hint, t.Sort)
	fc.facts = append(fc.facts, eq(n, t).S)
	return n
}

// assume records fact under the state's path condition.
func (fc *FnCtx) assume(st *State, fact T) {
	if fact.S == "true" {
		return
	}
	fc.facts = append(fc.facts, implies(st.pc, fact).S)
}

// axiom records an unguarded fact (definitions of fresh symbols, type ranges).
func (fc *FnCtx) axiom(fact T) {
	if fact.S == "true" {
		return
	}
	fc.facts = append(fc.facts, fact.S)
}

func (fc *FnCtx) pos(p token.Pos) string {
	if !p.IsValid() {
		return ""
	}
	ps := fc.pkg.Fset.Position(p)
	f := ps.Filename
	if k := strings.LastIndex(f, "/"); k >= 0 {
		f = f[k+1:]
	}
	return fmt.Sprintf("%s:%d", f, ps.Line)
}

// assert emits an obligation; afterwards the goal is assumed on this path.
func (fc *FnCtx) assert(st *State, kind, name string, goal T, p token.Pos, src string) *Obligation {
	if st == nil {
		return nil
	}
	if goal.S == "true" {
		return nil
	}
	full := fc.name + "#" + name
	base := full
	fc.oblNames[full]++
	if n := fc.oblNames[full]; n > 1 {
		full = fmt.Sprintf("%s~%d", full, n)
	}
	// known findings: the recorded input class is evaluated here, in the state of the obligation
	var except T
	var kf []*KnownFinding
	for _, f := range fc.eng.known {
		if f.Obligation != base || f.exceptExpr == nil {
			continue
		}
		env := fc.curEnv
		if env == nil {
			env = &specEnv{fc: fc, st: st, old: fc.entry, at: p}
		}
		n := *env
		n.st = st
		t := fc.specBool(st, f.exceptExpr, &n)
		if except.S == "" {
			except = t
		} else {
			except = or(except, t)
		}
		kf = append(kf, f)
	}
	o := &Obligation{Name: full, Base: base, Kind: kind, Func: fc.name, Pos: fc.pos(p), nDecl: len(fc.decls), nFact: len(fc.facts),
		pc: st.pc, goal: goal, fc: fc, Src: src, Except: except, Known: kf}
	if fc.curEnv != nil {
		o.bind = fc.curEnv.bind
	}
	fc.obls = append(fc.obls, o)
	fc.assume(st, goal)
	return o
}

func (fc *FnCtx) canary(st *State, name string, p token.Pos) {
	if st == nil {
		return
	}
	full := fc.name + "#" + name
	fc.oblNames[full]++
	if n := fc.oblNames[full]; n > 1 {
		full = fmt.Sprintf("%s~%d", full, n)
	}
	o := &Obligation{Name: full, Kind: "canary", Func: fc.name, Pos: fc.pos(p), nDecl: len(fc.decls), nFact: len(fc.facts),
		pc: st.pc, goal: tFalse, fc: fc, Canary: true}
	fc.obls = append(fc.obls, o)
}

// query renders the SMT-LIB text of an obligation.
func (o *Obligation) query(extraAssume string, model bool) string {
	var sb strings.Builder
	sb.WriteString("(set-option :produce-models true)\n(set-logic ALL)\n")
	for _, l := range o.fc.eng.prelude {
		sb.WriteString(l)
		sb.WriteByte('\n')
	}
	for _, d := range o.fc.decls[:o.nDecl] {
		sb.WriteString(d)
		sb.WriteByte('\n')
	}
	for _, f := range o.fc.facts[:o.nFact] {
		sb.WriteString("(assert ")
		sb.WriteString(f)
		sb.WriteString(")\n")
	}
	sb.WriteString("(assert " + o.pc.S + ")\n")
	if extraAssume != "" {
		sb.WriteString("(assert " + extraAssume + ")\n")
	}
	sb.WriteString("(assert (not " + o.goal.S + "))\n")
	sb.WriteString("(check-sat)\n")
	if model {
		sb.WriteString("(get-model)\n")
	}
	return sb.String()
}

// ---------------------------------------------------------------------------
// integer typing

func (fc *FnCtx) intInfo(t types.Type) (bits int, signed bool, ok bool) {
	b, isB := t.Underlying().(*types.Basic)
	if !isB {
		return 0, false, false
	}
	switch b.Kind() {
	case types.Int, types.UntypedInt, types.UntypedRune:
		return fc.intBits, true, true
	case types.Int8:
		return 8, true, true
	case types.Int16:
		return 16, true, true
	case types.Int32:
		return 32, true, true
	case types.Int64:
		return 64, true, true
	case types.Uint, types.Uintptr:
		return fc.intBits, false, true
	case types.Uint8:
		return 8, false, true
	case types.Uint16:
		return 16, false, true
	case types.Uint32:
		return 32, false, true
	case types.Uint64:
		return 64, false, true
	}
	return 0, false, false
}

func typeRange(bits int, signed bool) (lo, hi *big.Int) {
	if signed {
		lo = new(big.Int).Neg(pow2(uint(bits - 1)))
		hi = new(big.Int).Sub(pow2(uint(bits-1)), big.NewInt(1))
	} else {
		lo = big.NewInt(0)
		hi = new(big.Int).Sub(pow2(uint(bits)), big.NewInt(1))
	}
	return
}

func (fc *FnCtx) rangeFact(x T, t types.Type) T {
	bits, signed, ok := fc.intInfo(t)
	if !ok {
		return tTrue
	}
	lo, hi := typeRange(bits, signed)
	return and(le(mkBig(lo), x), le(x, mkBig(hi)))
}

// wrapTo wraps math value x into the type's range (two's complement).
func (fc *FnCtx) wrapTo(x T, bits int, signed bool) T {
	m := mkBig(pow2(uint(bits)))
	if !signed {
		return imod(x, m)
	}
	h := mkBig(pow2(uint(bits - 1)))
	return sub(imod(add(x, h), m), h)
}

// ---------------------------------------------------------------------------
// fresh values by Go type

func isByteSlice(t types.Type) bool {
	s, ok := t.Underlying().(*types.Slice)
	if !ok {
		return false
	}
	b, ok := s.Elem().Underlying().(*types.Basic)
	return ok && (b.Kind() == types.Uint8)
}

func isErrorType(t types.Type) bool {
	return types.Identical(t, types.Universe.Lookup("error").Type())
}

// freshVal creates an unconstrained value of Go type t (with type-range facts).
func (fc *FnCtx) freshVal(t types.Type, hint string) Val {
	switch u := t.Underlying().(type) {
	case *types.Basic:
		switch {
		case u.Info()&types.IsBoolean != 0:
			return VBool{fc.fresh(hint, SBool)}
		case u.Info()&types.IsInteger != 0:
			x := fc.fresh(hint, SInt)
			fc.axiom(fc.rangeFact(x, t))
			return VInt{x}
		case u.Info()&types.IsString != 0:
			s := VStr{fc.fresh(hint+".a", SArr), fc.fresh(hint+".o", SInt), fc.fresh(hint+".n", SInt)}
			fc.axiom(and(le(mkInt(0), s.Len), le(mkInt(0), s.Off), le(s.Len, fc.maxInt())))
			return s
		case u.Kind() == types.UnsafePointer:
			return VOpaque{fc.fresh(hint, SInt), t}
		case u.Info()&types.IsFloat != 0:
			return VOpaque{fc.fresh(hint, SInt), t}
		case u.Kind() == types.UntypedNil:
			return VInt{mkInt(0)}
		}
	case *types.Slice:
		s := VSlice{fc.fresh(hint+".r", SInt), fc.fresh(hint+".o", SInt), fc.fresh(hint+".n", SInt), fc.fresh(hint+".c", SInt), u.Elem()}
		fc.axiom(and(le(mkInt(0), s.Rgn), le(mkInt(0), s.Off), le(mkInt(0), s.Len), le(s.Len, s.Cap),
			implies(eq(s.Rgn, mkInt(0)), eq(s.Cap, mkInt(0))), le(s.Cap, fc.maxInt())))
		return s
	case *types.Struct:
		f := map[string]Val{}
		if fc.structDepth < 6 && !isOpaqueStruct(t) {
			fc.structDepth++
			for i := 0; i < u.NumFields(); i++ {
				f[u.Field(i).Name()] = fc.freshVal(u.Field(i).Type(), hint+"."+u.Field(i).Name())
			}
			fc.structDepth--
		}
		return VStruct{t, f} // anything missing is materialised lazily
	case *types.Pointer:
		id := fc.fresh(hint, SInt)
		fc.axiom(le(mkInt(0), id))
		return VPtr{id, -1, u.Elem()}
	case *types.Interface:
		if isErrorType(t) {
			x := fc.fresh(hint, SInt)
			fc.axiom(le(mkInt(0), x))
			if fc.entry != nil && fc.lenient {
				// an error value first seen after entry cannot be a package-private sentinel that only this function produces
				fc.excludePrivateSentinels(x)
			}
			return VInt{x}
		}
		id := fc.fresh(hint, SInt)
		fc.axiom(le(mkInt(0), id))
		return VOpaque{id, t}
	case *types.Signature, *types.Map, *types.Chan:
		id := fc.fresh(hint, SInt)
		fc.axiom(le(mkInt(0), id))
		return VOpaque{id, t}
	case *types.Array:
		// arrays are modelled as structs with lazily materialised cells "0","1",...
		return VStruct{t, map[string]Val{}}
	case *types.Tuple:
		r := make(VTuple, u.Len())
		for i := 0; i < u.Len(); i++ {
			r[i] = fc.freshVal(u.At(i).Type(), fmt.Sprintf("%s.%d", hint, i))
		}
		return r
	}
	panic(unsupported("fresh value of type " + t.String()))
}

// zeroVal builds the Go zero value of t.
func (fc *FnCtx) zeroVal(t types.Type) Val {
	switch u := t.Underlying().(type) {
	case *types.Basic:
		switch {
		case u.Info()&types.IsBoolean != 0:
			return VBool{tFalse}
		case u.Info()&types.IsInteger != 0:
			return VInt{mkInt(0)}
		case u.Info()&types.IsString != 0:
			return VStr{fc.emptyArr(), mkInt(0), mkInt(0)}
		default:
			return VOpaque{mkInt(0), t}
		}
	case *types.Slice:
		return VSlice{mkInt(0), mkInt(0), mkInt(0), mkInt(0), u.Elem()}
	case *types.Struct:
		f := map[string]Val{}
		for i := 0; i < u.NumFields(); i++ {
			f[u.Field(i).Name()] = fc.zeroVal(u.Field(i).Type())
		}
		return VStruct{t, f}
	case *types.Pointer:
		return VPtr{mkInt(0), -1, u.Elem()}
	case *types.Interface:
		if isErrorType(t) {
			return VInt{mkInt(0)}
		}
		return VOpaque{mkInt(0), t}
	case *types.Signature, *types.Map, *types.Chan:
		return VOpaque{mkInt(0), t}
	case *types.Array:
		f := map[string]Val{}
		if u.Len() <= 64 {
			for i := int64(0); i < u.Len(); i++ {
				f[fmt.Sprint(i)] = fc.zeroVal(u.Elem())
			}
		}
		return VStruct{t, f}
	}
	panic(unsupported("zero value of type " + t.String()))
}

func (fc *FnCtx) emptyArr() T {
	if t, ok := fc.strConsts[""]; ok {
		return t
	}
	t := fc.fresh("emptystr", SArr)
	fc.strConsts[""] = t
	return t
}

// strConst returns the array symbol holding the bytes of a constant string.
func (fc *FnCtx) strConst(s string) VStr {
	if t, ok := fc.strConsts[s]; ok {
		return VStr{t, mkInt(0), mkInt(int64(len(s)))}
	}
	hint := "str_" + s
	if len(hint) > 16 {
		hint = hint[:16]
	}
	t := fc.fresh(hint, SArr)
	fc.strConsts[s] = t
	if len(s) > 4096 {
		panic(unsupported("string constant longer than 4096 bytes"))
	}
	for i := 0; i < len(s); i++ {
		fc.axiom(eq(sel(t, mkInt(int64(i))), mkInt(int64(s[i]))))
	}
	return VStr{t, mkInt(0), mkInt(int64(len(s)))}
}

// field access on struct values with lazy materialisation.
func (fc *FnCtx) structField(sv VStruct, name string, hint string) (Val, VStruct) {
	if v, ok := sv.F[name]; ok {
		return v, sv
	}
	ft := fieldType(sv.Typ, name)
	if ft == nil {
		panic(unsupported("no field " + name + " in " + sv.Typ.String()))
	}
	v := fc.freshVal(ft, hint+"."+name)
	if sv.F != nil {
		// remember the materialised field in the value itself: every holder of this (unknown) struct value sees the
		// same unknown for the field, also a reader that does not store the struct back (contract evaluation)
		sv.F[name] = v
		return v, sv
	}
	nf := make(map[string]Val, len(sv.F)+1)
	for k, x := range sv.F {
		nf[k] = x
	}
	nf[name] = v
	return v, VStruct{sv.Typ, nf}
}

func fieldType(t types.Type, name string) types.Type {
	switch u := t.Underlying().(type) {
	case *types.Struct:
		for i := 0; i < u.NumFields(); i++ {
			if u.Field(i).Name() == name {
				return u.Field(i).Type()
			}
		}
	case *types.Array:
		return u.Elem()
	}
	return nil
}

func withField(sv VStruct, name string, v Val) VStruct {
	nf := make(map[string]Val, len(sv.F)+1)
	for k, x := range sv.F {
		nf[k] = x
	}
	nf[name] = v
	return VStruct{sv.Typ, nf}
}

// newObj allocates a static object holding v.
func (fc *FnCtx) newObj(st *State, v Val) int {
	fc.nobj++
	st.objs[fc.nobj] = v
	return fc.nobj
}

func (fc *FnCtx) maxInt() T {
	_, hi := typeRange(fc.intBits, true)
	return mkBig(hi)
}
