package main

import (
	"fmt"
	"go/ast"
	"go/constant"
	"go/printer"
	"go/token"
	"go/types"
	"math/big"
	"strings"
)

func (fc *FnCtx) typeOf(e ast.Expr) types.Type {
	if tv, ok := fc.pkg.TypesInfo.Types[e]; ok && tv.Type != nil {
		return tv.Type
	}
	if id, ok := e.(*ast.Ident); ok {
		if o := fc.pkg.TypesInfo.ObjectOf(id); o != nil {
			return o.Type()
		}
	}
	panic(unsupported("no type for expression " + fc.src(e)))
}

func (fc *FnCtx) src(n ast.Node) string {
	if n == nil {
		return ""
	}
	if p, ok := n.(posExpr); ok {
		n = p.BinaryExpr
	}
	var sb strings.Builder
	_ = printer.Fprint(&sb, fc.pkg.Fset, n)
	s := strings.Join(strings.Fields(sb.String()), " ")
	if len(s) > 60 {
		s = s[:57] + "..."
	}
	return s
}

// constVal turns a go/constant value into a Val.
func (fc *FnCtx) constVal(cv constant.Value, t types.Type) Val {
	switch cv.Kind() {
	case constant.Bool:
		return VBool{mkBool(constant.BoolVal(cv))}
	case constant.Int:
		if b, ok := constant.Val(cv).(*big.Int); ok {
			return VInt{mkBig(b)}
		}
		i, _ := constant.Int64Val(cv)
		return VInt{mkInt(i)}
	case constant.String:
		return fc.strConst(constant.StringVal(cv))
	case constant.Float:
		if t != nil {
			if _, _, ok := fc.intInfo(t); ok {
				if iv := constant.ToInt(cv); iv.Kind() == constant.Int {
					return fc.constVal(iv, t)
				}
			}
		}
		return VOpaque{fc.fresh("float", SInt), t}
	}
	panic(unsupported("constant kind " + cv.Kind().String()))
}

// lenientFresh returns an unknown of e's type in lenient mode, or aborts in strict mode.
func (fc *FnCtx) lenientFresh(e ast.Expr, why string) Val {
	if !fc.lenient {
		panic(unsupported(why + ": " + fc.src(e) + " @" + fc.pos(e.Pos())))
	}
	fc.havocs++
	t := fc.typeOf(e)
	return fc.freshVal(t, "unk")
}

// eval evaluates a Go expression in state st (st may be updated by calls).
func (fc *FnCtx) eval(st *State, e ast.Expr) Val {
	if tv, ok := fc.pkg.TypesInfo.Types[e]; ok && tv.Value != nil {
		return fc.constVal(tv.Value, tv.Type)
	}
	switch x := e.(type) {
	case *ast.ParenExpr:
		return fc.eval(st, x.X)
	case *ast.Ident:
		return fc.evalIdent(st, x)
	case *ast.BasicLit:
		panic(unsupported("literal without constant value " + x.Value))
	case *ast.BinaryExpr:
		return fc.evalBinary(st, x)
	case *ast.UnaryExpr:
		return fc.evalUnary(st, x)
	case *ast.CallExpr:
		return fc.evalCall(st, x, false)
	case *ast.IndexExpr:
		return fc.evalIndex(st, x)
	case *ast.SliceExpr:
		return fc.evalSliceExpr(st, x)
	case *ast.SelectorExpr:
		return fc.evalSelector(st, x)
	case *ast.StarExpr:
		p := fc.eval(st, x.X)
		return fc.deref(st, p, x)
	case *ast.CompositeLit:
		return fc.evalCompositeLit(st, x)
	case *ast.FuncLit:
		id := fc.fresh("funclit", SInt)
		fc.axiom(lt(mkInt(0), id))
		fc.eng.noteFuncLit(fc, id.S, x)
		return VOpaque{id, fc.typeOf(x)}
	case *ast.TypeAssertExpr:
		return fc.evalTypeAssert(st, x, false)
	}
	return fc.lenientFresh(e, fmt.Sprintf("expression kind %T", e))
}

func (fc *FnCtx) evalIdent(st *State, id *ast.Ident) Val {
	if id.Name == "nil" {
		return VInt{mkInt(0)}
	}
	obj := fc.pkg.TypesInfo.ObjectOf(id)
	if obj == nil {
		panic(unsupported("unresolved identifier " + id.Name))
	}
	switch o := obj.(type) {
	case *types.Var:
		if v, ok := st.vars[o]; ok {
			return v
		}
		if b, ok := st.ghost[boxKey(o)]; ok {
			return fc.load(st, loc{kind: 1, obj: fc.objIndex(b), typ: o.Type()})
		}
		if o.Parent() == o.Pkg().Scope() || (o.Pkg() != nil && o.Pkg() != fc.pkg.Types) {
			return fc.globalVar(st, o)
		}
		// captured variable of an enclosing function (when verifying closures) or unknown
		v := fc.freshVal(o.Type(), o.Name())
		st.vars[o] = v
		return v
	case *types.Const:
		return fc.constVal(o.Val(), o.Type())
	case *types.Nil:
		return VInt{mkInt(0)}
	case *types.Func:
		id := fc.fresh("fn_"+o.Name(), SInt)
		fc.axiom(lt(mkInt(0), id))
		return VOpaque{id, o.Type()}
	}
	return fc.lenientFresh(id, "identifier kind")
}

// globalVar models package-level variables: error sentinels, constant byte slices, the rest unknown.
func (fc *FnCtx) globalVar(st *State, o *types.Var) Val {
	key := o.Name()
	if o.Pkg() != nil && o.Pkg() != fc.pkg.Types {
		key = o.Pkg().Name() + "." + o.Name()
	}
	if isErrorType(o.Type()) {
		return VInt{mkInt(int64(fc.eng.errCode(o)))}
	}
	if fc.lenient && fc.eng.isErrorSentinelPtr(o) {
		// var ErrX = &someError{}: a non-nil sentinel like the errors.New ones
		return VInt{mkInt(int64(fc.eng.errCode(o)))}
	}
	if isByteSlice(o.Type()) {
		if content, ok := fc.eng.globalBytes(o); ok {
			return fc.constSlice(st, key, content)
		}
	}
	if b, ok := o.Type().Underlying().(*types.Basic); ok && b.Info()&types.IsString != 0 {
		if content, ok := fc.eng.globalString(o); ok {
			return fc.strConst(content)
		}
	}
	if v, ok := st.ghost["global:"+key]; ok {
		return v
	}
	if !fc.lenient {
		fc.note("global variable " + key + " read as unknown")
	}
	v := fc.freshVal(o.Type(), "g_"+o.Name())
	st.ghost["global:"+key] = v
	return v
}

func (fc *FnCtx) note(s string) {
	for _, n := range fc.notes {
		if n == s {
			return
		}
	}
	fc.notes = append(fc.notes, s)
}

// constSlice: a package-level `var x = []byte("...")`, assumed never written.
func (fc *FnCtx) constSlice(st *State, key, content string) VSlice {
	id, ok := fc.constRgn[key]
	if !ok {
		id = -(len(fc.constRgn) + 1)
		fc.constRgn[key] = id
		fc.constRgnS[id] = content
		fc.assumptions["package-level byte slices (strXxx) are never written"] = true
	}
	sc := fc.strConst(content)
	// the current heap holds the constant content in that region
	fc.assume(st, eq(sel(st.heap, mkInt(int64(id))), sc.Arr))
	n := mkInt(int64(len(content)))
	return VSlice{mkInt(int64(id)), mkInt(0), n, n, types.Typ[types.Uint8]}
}

// reassertConstRegions is called after the heap was havocked.
func (fc *FnCtx) reassertConstRegions(st *State) {
	for _, id := range fc.constRgn {
		sc := fc.strConst(fc.constRgnS[id])
		fc.assume(st, eq(sel(st.heap, mkInt(int64(id))), sc.Arr))
	}
}

// ---------------------------------------------------------------------------
// arithmetic

func asInt(v Val) T {
	switch x := v.(type) {
	case VInt:
		return x.T
	case VOpaque:
		return x.ID
	case VPtr:
		return x.ID
	}
	panic(unsupported(fmt.Sprintf("integer expected, got %T", v)))
}

func asBool(v Val) T {
	if b, ok := v.(VBool); ok {
		return b.T
	}
	panic(unsupported(fmt.Sprintf("bool expected, got %T", v)))
}

// fit applies the result-type discipline to a mathematical result r of type t.
func (fc *FnCtx) fit(st *State, r T, t types.Type, e ast.Expr, mayOverflow bool) T {
	bits, signed, ok := fc.intInfo(t)
	if !ok || !mayOverflow {
		return r
	}
	if b, isB := t.Underlying().(*types.Basic); isB && b.Info()&types.IsUntyped != 0 {
		return r
	}
	lo, hi := typeRange(bits, signed)
	if signed && !fc.wrap {
		if fc.safetyActive() {
			fc.assert(st, "overflow", "overflow["+fc.src(e)+"]", and(le(mkBig(lo), r), le(r, mkBig(hi))), e.Pos(), "")
			return r
		}
		if !fc.lenient {
			return r
		}
	}
	// wrapping semantics
	w := fc.define(fc.wrapTo(r, bits, signed), "w")
	return w
}

// wrapSmall wraps a value known to lie within one modulus of the range (add/sub of in-range operands).
func (fc *FnCtx) wrapAddSub(r T, bits int, signed bool) T {
	m := mkBig(pow2(uint(bits)))
	lo, hi := typeRange(bits, signed)
	return ite(gt(r, mkBig(hi)), sub(r, m), ite(lt(r, mkBig(lo)), add(r, m), r))
}

func (fc *FnCtx) safetyActive() bool {
	if fc.contract == nil {
		return true
	}
	if fc.lenient && len(fc.contract.Safety) == 0 {
		return false // skeleton mode: arithmetic wraps, no bounds obligations unless the contract asks for them
	}
	if fc.prop == "" {
		return true
	}
	list := fc.contract.Safety
	if list == nil {
		list = fc.contract.Props
	}
	for _, p := range list {
		if p == fc.prop {
			return true
		}
	}
	return false
}

func (fc *FnCtx) evalBinary(st *State, x *ast.BinaryExpr) Val {
	switch x.Op {
	case token.LAND, token.LOR:
		a := asBool(fc.eval(st, x.X))
		// evaluate RHS under the guard so its safety obligations are conditional
		g := a
		if x.Op == token.LOR {
			g = not(a)
		}
		sub := st.clone()
		sub.pc = fc.define(and(st.pc, g), "pc")
		b := asBool(fc.eval(sub, x.Y))
		fc.adoptEffects(st, sub)
		if x.Op == token.LAND {
			return VBool{and(a, b)}
		}
		return VBool{or(a, b)}
	}
	lt_ := fc.typeOf(x.X)
	a := fc.eval(st, x.X)
	b := fc.eval(st, x.Y)
	rt := fc.typeOf(x)
	switch x.Op {
	case token.EQL, token.NEQ:
		var r T
		switch av := a.(type) {
		case VStr:
			r = fc.seqEq(av, fc.toSeq(st, b))
		case VSlice:
			// only comparison with nil is legal for slices
			r = eq(av.Rgn, mkInt(0))
			if bs, ok := b.(VSlice); ok {
				r = eq(bs.Rgn, mkInt(0))
				_ = av
			}
		default:
			if bs, ok := b.(VSlice); ok {
				r = eq(bs.Rgn, mkInt(0))
			} else if bs, ok := b.(VStr); ok {
				r = fc.seqEq(fc.toSeq(st, a), bs)
			} else {
				fc.materializeStruct(a, 0)
				fc.materializeStruct(b, 0)
				r = valEq(a, b)
			}
		}
		if x.Op == token.NEQ {
			r = not(r)
		}
		return VBool{r}
	case token.LSS, token.LEQ, token.GTR, token.GEQ:
		if _, ok := a.(VStr); ok {
			return fc.lenientFresh(x, "string ordering")
		}
		if _, _, ok := fc.intInfo(lt_); !ok {
			return fc.lenientFresh(x, "ordering on non-integers")
		}
		ai, bi := asInt(a), asInt(b)
		switch x.Op {
		case token.LSS:
			return VBool{lt(ai, bi)}
		case token.LEQ:
			return VBool{le(ai, bi)}
		case token.GTR:
			return VBool{gt(ai, bi)}
		default:
			return VBool{ge(ai, bi)}
		}
	case token.ADD:
		if as, ok := a.(VStr); ok {
			return fc.concat(st, as, b.(VStr))
		}
	}
	bits, signed, ok := fc.intInfo(rt)
	if !ok {
		return fc.lenientFresh(x, "arithmetic on non-integers")
	}
	ai, bi := asInt(a), asInt(b)
	return VInt{fc.arith(st, x.Op, ai, bi, rt, bits, signed, x, x.Y)}
}

func constOf(t T) (*big.Int, bool) {
	s := t.S
	negv := false
	if strings.HasPrefix(s, "(- ") && strings.HasSuffix(s, ")") {
		s = s[3 : len(s)-1]
		negv = true
	}
	b, ok := new(big.Int).SetString(s, 10)
	if !ok {
		return nil, false
	}
	if negv {
		b.Neg(b)
	}
	return b, true
}

func log2Exact(b *big.Int) (uint, bool) {
	if b.Sign() <= 0 {
		return 0, false
	}
	k := uint(b.BitLen() - 1)
	if pow2(k).Cmp(b) == 0 {
		return k, true
	}
	return 0, false
}

func (fc *FnCtx) arith(st *State, op token.Token, a, b T, rt types.Type, bits int, signed bool, e ast.Expr, rhs ast.Expr) T {
	untyped := false
	if bb, isB := rt.Underlying().(*types.Basic); isB && bb.Info()&types.IsUntyped != 0 {
		untyped = true
	}
	switch op {
	case token.ADD, token.SUB:
		var r T
		if op == token.ADD {
			r = add(a, b)
		} else {
			r = sub(a, b)
		}
		if untyped {
			return r
		}
		if fc.contract != nil && fc.contract.NoOverflow {
			lo, hi := typeRange(bits, signed)
			fc.assume(st, and(le(mkBig(lo), r), le(r, mkBig(hi))))
			fc.assumptions["integer counters of this function do not overflow (contract says nooverflow)"] = true
			return fc.define(r, "n")
		}
		if !signed || fc.wrap || (!fc.safetyActive() && fc.lenient) {
			return fc.define(fc.wrapAddSub(r, bits, signed), "w")
		}
		return fc.fit(st, r, rt, e, true)
	case token.MUL:
		return fc.fit(st, mul(a, b), rt, e, true)
	case token.QUO, token.REM:
		if fc.safetyActive() {
			fc.assert(st, "divzero", "divzero["+fc.src(e)+"]", neq(b, mkInt(0)), e.Pos(), "")
		}
		var q T
		if bc, ok := constOf(b); ok && bc.Sign() > 0 {
			if signed {
				q = ite(ge(a, mkInt(0)), idiv(a, b), neg(idiv(neg(a), b)))
			} else {
				q = idiv(a, b)
			}
		} else if !signed {
			q = idiv(a, b)
		} else {
			q = ite(ge(a, mkInt(0)),
				ite(gt(b, mkInt(0)), idiv(a, b), neg(idiv(a, neg(b)))),
				ite(gt(b, mkInt(0)), neg(idiv(neg(a), b)), idiv(neg(a), neg(b))))
		}
		q = fc.define(q, "q")
		if op == token.QUO {
			return q // MinInt / -1 overflow ignored
		}
		return fc.define(sub(a, mul(b, q)), "rem")
	case token.SHL:
		bc, ok := constOf(b)
		if !ok || bc.Sign() < 0 || bc.BitLen() > 8 {
			return asInt(fc.lenientFresh(e, "non-constant shift"))
		}
		return fc.fit(st, mul(a, mkBig(pow2(uint(bc.Int64())))), rt, e, true)
	case token.SHR:
		bc, ok := constOf(b)
		if !ok || bc.Sign() < 0 || bc.BitLen() > 8 {
			return asInt(fc.lenientFresh(e, "non-constant shift"))
		}
		return idiv(a, mkBig(pow2(uint(bc.Int64())))) // floor division == arithmetic shift
	case token.AND:
		if bc, ok := constOf(b); ok {
			if k, ok := log2Exact(new(big.Int).Add(bc, big.NewInt(1))); ok {
				return imod(a, mkBig(pow2(k)))
			}
			// single bit test: x & 2^k
			if k, ok := log2Exact(bc); ok {
				return mul(imod(idiv(a, mkBig(pow2(k))), mkInt(2)), mkBig(pow2(k)))
			}
		}
		if ac, ok := constOf(a); ok {
			if k, ok := log2Exact(new(big.Int).Add(ac, big.NewInt(1))); ok {
				return imod(b, mkBig(pow2(k)))
			}
		}
		// x & c for a small non-negative constant: keep the bits of x that c has
		if bc, ok := constOf(b); ok && bc.Sign() > 0 && bc.BitLen() <= 16 {
			r := mkInt(0)
			for k := 0; k < bc.BitLen(); k++ {
				if bc.Bit(k) == 1 {
					p := mkBig(pow2(uint(k)))
					r = add(r, mul(imod(idiv(a, p), mkInt(2)), p))
				}
			}
			return fc.define(r, "and")
		}
		return asInt(fc.lenientFresh(e, "bitwise and with non-mask"))
	case token.OR:
		// x | 2^k  (single bit set)
		if bc, ok := constOf(b); ok {
			if k, ok := log2Exact(bc); ok {
				p := mkBig(pow2(k))
				return fc.define(ite(eq(imod(idiv(a, p), mkInt(2)), mkInt(1)), a, add(a, p)), "or")
			}
			if bc.Sign() == 0 {
				return a
			}
			// x | c for a small non-negative constant: add every bit of c that x lacks
			if bc.Sign() > 0 && bc.BitLen() <= 16 {
				r := a
				for k := 0; k < bc.BitLen(); k++ {
					if bc.Bit(k) == 1 {
						p := mkBig(pow2(uint(k)))
						r = add(r, ite(eq(imod(idiv(a, p), mkInt(2)), mkInt(1)), mkInt(0), p))
					}
				}
				return fc.define(r, "or")
			}
		}
		// L | R with L a multiple of 2^k and 0 <= R < 2^k  ==> L + R
		if k, ok := fc.minShift(rhsOfOr(e, true)); ok {
			p := mkBig(pow2(k))
			goal := and(eq(imod(a, p), mkInt(0)), le(mkInt(0), b), lt(b, p))
			if fc.orDisjoint(st, goal, e) {
				return add(a, b)
			}
		}
		if k, ok := fc.minShift(rhsOfOr(e, false)); ok {
			p := mkBig(pow2(k))
			goal := and(eq(imod(b, p), mkInt(0)), le(mkInt(0), a), lt(a, p))
			if fc.orDisjoint(st, goal, e) {
				return add(a, b)
			}
		}
		return asInt(fc.lenientFresh(e, "bitwise or of overlapping operands"))
	case token.XOR, token.AND_NOT:
		return asInt(fc.lenientFresh(e, "bitwise xor/andnot"))
	}
	panic(unsupported("binary operator " + op.String()))
}

func rhsOfOr(e ast.Expr, left bool) ast.Expr {
	for {
		if p, ok := e.(*ast.ParenExpr); ok {
			e = p.X
			continue
		}
		break
	}
	switch b := e.(type) {
	case *ast.BinaryExpr:
		if left {
			return b.X
		}
		return b.Y
	}
	return nil
}

// minShift: if e is (X << c) or an OR of such, returns the smallest c.
func (fc *FnCtx) minShift(e ast.Expr) (uint, bool) {
	for {
		if p, ok := e.(*ast.ParenExpr); ok {
			e = p.X
			continue
		}
		break
	}
	b, ok := e.(*ast.BinaryExpr)
	if !ok {
		return 0, false
	}
	switch b.Op {
	case token.SHL:
		if tv, ok := fc.pkg.TypesInfo.Types[b.Y]; ok && tv.Value != nil {
			if k, ok := constant.Int64Val(constant.ToInt(tv.Value)); ok && k >= 0 && k < 64 {
				return uint(k), true
			}
		}
	case token.OR:
		k1, ok1 := fc.minShift(b.X)
		k2, ok2 := fc.minShift(b.Y)
		if ok1 && ok2 {
			return min(k1, k2), true
		}
	}
	return 0, false
}

// orDisjoint asserts (as a safety obligation) that the operands of | are bit-disjoint in the shape L + R.
func (fc *FnCtx) orDisjoint(st *State, goal T, e ast.Expr) bool {
	if fc.safetyActive() {
		fc.assert(st, "bitor", "bitor-disjoint["+fc.src(e)+"]", goal, e.Pos(), "")
	} else {
		fc.assume(st, goal)
		fc.assumptions["bit-disjointness of | operands assumed (checked under the function's safety property)"] = true
	}
	return true
}

func (fc *FnCtx) evalUnary(st *State, x *ast.UnaryExpr) Val {
	switch x.Op {
	case token.NOT:
		return VBool{not(asBool(fc.eval(st, x.X)))}
	case token.SUB:
		v := asInt(fc.eval(st, x.X))
		return VInt{fc.fit(st, neg(v), fc.typeOf(x), x, true)}
	case token.ADD:
		return fc.eval(st, x.X)
	case token.AND:
		return fc.addressOf(st, x.X)
	case token.ARROW:
		fc.onChan(st, "recv", x.X, x)
		return fc.lenientFresh(x, "channel receive")
	case token.XOR:
		return fc.lenientFresh(x, "bitwise complement")
	}
	panic(unsupported("unary operator " + x.Op.String()))
}

// ---------------------------------------------------------------------------
// sequences

func (fc *FnCtx) toSeq(st *State, v Val) VStr {
	switch x := v.(type) {
	case VStr:
		return x
	case VSlice:
		return VStr{fc.define(sel(st.heap, x.Rgn), "A"), x.Off, x.Len}
	}
	panic(unsupported(fmt.Sprintf("sequence expected, got %T", v)))
}

func seqAt(s VStr, i T) T { return sel(s.Arr, add(s.Off, i)) }

// seqEq: content equality.
func (fc *FnCtx) seqEq(a, b VStr) T {
	if n, ok := constOf(b.Len); ok && n.IsInt64() && n.Int64() <= 64 {
		cs := []T{eq(a.Len, b.Len)}
		for i := int64(0); i < n.Int64(); i++ {
			cs = append(cs, eq(seqAt(a, mkInt(i)), seqAt(b, mkInt(i))))
		}
		return and(cs...)
	}
	if n, ok := constOf(a.Len); ok && n.IsInt64() && n.Int64() <= 64 {
		return fc.seqEq(b, a)
	}
	fc.nfr++
	k := fmt.Sprintf("k!%d", fc.nfr)
	kt := T{k, SInt}
	return and(eq(a.Len, b.Len), forallInt(k, implies(inRange(kt, mkInt(0), a.Len), eq(seqAt(a, kt), seqAt(b, kt)))))
}

func (fc *FnCtx) concat(st *State, a, b VStr) VStr {
	arr := fc.fresh("cat", SArr)
	fc.nfr++
	k := T{fmt.Sprintf("k!%d", fc.nfr), SInt}
	n := fc.define(add(a.Len, b.Len), "catn")
	fc.axiom(forallInt(k.S, eq(sel(arr, k), ite(lt(k, a.Len), seqAt(a, k), seqAt(b, sub(k, a.Len)))), sel(arr, k)))
	return VStr{arr, mkInt(0), n}
}

// ---------------------------------------------------------------------------
// indexing, slicing

func (fc *FnCtx) boundsAssert(st *State, name string, goal T, e ast.Expr) {
	if fc.safetyActive() {
		fc.assert(st, "bounds", name+"["+fc.src(e)+"]", goal, e.Pos(), "")
	} else {
		// a property that does not own safety still relies on the operation not panicking
		fc.assume(st, goal)
	}
}

func (fc *FnCtx) evalIndex(st *State, x *ast.IndexExpr) Val {
	if tv, ok := fc.pkg.TypesInfo.Types[x.X]; ok && tv.IsType() {
		return fc.lenientFresh(x, "generic instantiation")
	}
	base := fc.eval(st, x.X)
	switch b := base.(type) {
	case VStr:
		i := asInt(fc.eval(st, x.Index))
		fc.boundsAssert(st, "index", inRange(i, mkInt(0), b.Len), x)
		r := fc.define(seqAt(b, i), "ch")
		fc.assume(st, and(le(mkInt(0), r), le(r, mkInt(255))))
		return VInt{r}
	case VSlice:
		i := asInt(fc.eval(st, x.Index))
		fc.onIndex(st, x, i)
		fc.boundsAssert(st, "index", inRange(i, mkInt(0), b.Len), x)
		return fc.readElem(st, b, i)
	case VStruct: // array
		if _, isArr := b.Typ.Underlying().(*types.Array); isArr {
			iv := asInt(fc.eval(st, x.Index))
			arr := b.Typ.Underlying().(*types.Array)
			fc.boundsAssert(st, "index", inRange(iv, mkInt(0), mkInt(arr.Len())), x)
			if c, ok := constOf(iv); ok {
				v, _ := fc.structField(b, c.String(), "arr")
				return v
			}
			return fc.lenientFresh(x, "array indexed by non-constant")
		}
	case VOpaque:
		// map lookup
		if _, isMap := fc.typeOf(x.X).Underlying().(*types.Map); isMap {
			if fc.lenient && isIntMap(fc.typeOf(x.X)) {
				return fc.mapRead(st, b, asInt(fc.eval(st, x.Index)))
			}
			fc.eval(st, x.Index)
			if !fc.lenient {
				panic(unsupported("map lookup " + fc.src(x)))
			}
			fc.havocs++
			return fc.freshVal(fc.typeOf(x), "mapv")
		}
	}
	return fc.lenientFresh(x, fmt.Sprintf("index of %T", base))
}

// readElem reads s[i] (bounds already established).
func (fc *FnCtx) readElem(st *State, s VSlice, i T) Val {
	if isByteElem(s.Elem) {
		r := fc.define(sel(sel(st.heap, s.Rgn), add(s.Off, i)), "b")
		fc.assume(st, and(le(mkInt(0), r), le(r, mkInt(255))))
		return VInt{r}
	}
	return fc.eng.readGenericElem(fc, st, s, i)
}

func isByteElem(t types.Type) bool {
	b, ok := t.Underlying().(*types.Basic)
	return ok && b.Kind() == types.Uint8
}

func (fc *FnCtx) evalSliceExpr(st *State, x *ast.SliceExpr) Val {
	base := fc.eval(st, x.X)
	var lo, hi, mx T
	lo = mkInt(0)
	if x.Low != nil {
		lo = asInt(fc.eval(st, x.Low))
	}
	switch b := base.(type) {
	case VStr:
		hi = b.Len
		if x.High != nil {
			hi = asInt(fc.eval(st, x.High))
		}
		fc.boundsAssert(st, "slice", and(le(mkInt(0), lo), le(lo, hi), le(hi, b.Len)), x)
		return VStr{b.Arr, fc.define(add(b.Off, lo), "so"), fc.define(sub(hi, lo), "sn")}
	case VSlice:
		hi = b.Len
		if x.High != nil {
			hi = asInt(fc.eval(st, x.High))
		}
		mx = b.Cap
		if x.Max != nil {
			mx = asInt(fc.eval(st, x.Max))
			fc.boundsAssert(st, "slice", and(le(mkInt(0), lo), le(lo, hi), le(hi, mx), le(mx, b.Cap)), x)
		} else {
			fc.boundsAssert(st, "slice", and(le(mkInt(0), lo), le(lo, hi), le(hi, b.Cap)), x)
		}
		return VSlice{b.Rgn, fc.define(add(b.Off, lo), "so"), fc.define(sub(hi, lo), "sn"), fc.define(sub(mx, lo), "sc"), b.Elem}
	case VPtr, VStruct:
		// slicing an array or pointer to array
		return fc.lenientFresh(x, "slicing an array")
	}
	return fc.lenientFresh(x, fmt.Sprintf("slice of %T", base))
}

// ---------------------------------------------------------------------------
// selectors, pointers, locations

// loc is an assignable location.
type loc struct {
	kind  int // 0 var, 1 object, 2 heap cell, 3 global/unknown, 4 entry of an integer map (slice.Rgn = map identity, slice.Elem = map type, idx = key)
	v     types.Object
	obj   int
	path  []string
	slice VSlice
	idx   T
	typ   types.Type
}

func getPath(fc *FnCtx, root Val, path []string, hint string) Val {
	cur := root
	for _, p := range path {
		sv, ok := cur.(VStruct)
		if !ok {
			panic(unsupported(fmt.Sprintf("field %s of %T", p, cur)))
		}
		cur, _ = fc.structField(sv, p, hint)
	}
	return cur
}

func setPath(fc *FnCtx, root Val, path []string, v Val, hint string) Val {
	if len(path) == 0 {
		return v
	}
	sv, ok := root.(VStruct)
	if !ok {
		panic(unsupported(fmt.Sprintf("field %s of %T", path[0], root)))
	}
	var child Val
	if len(path) > 1 {
		child, sv = fc.structField(sv, path[0], hint)
	}
	return withField(sv, path[0], setPath(fc, child, path[1:], v, hint))
}

func (fc *FnCtx) load(st *State, l loc) Val {
	switch l.kind {
	case 0:
		root, ok := st.vars[l.v]
		if !ok {
			root = fc.freshVal(l.v.Type(), l.v.Name())
			st.vars[l.v] = root
		}
		if len(l.path) == 0 {
			return root
		}
		v := getPath(fc, root, l.path, l.v.Name())
		// persist lazily materialised fields
		st.vars[l.v] = setPath(fc, root, l.path, v, l.v.Name())
		return v
	case 1:
		root := st.objs[l.obj]
		if root == nil {
			root = fc.freshVal(l.typ, fmt.Sprintf("o%d", l.obj))
			st.objs[l.obj] = root
		}
		if len(l.path) == 0 {
			return root
		}
		v := getPath(fc, root, l.path, fmt.Sprintf("o%d", l.obj))
		st.objs[l.obj] = setPath(fc, root, l.path, v, "o")
		return v
	case 2:
		v := fc.readElem(st, l.slice, l.idx)
		if len(l.path) > 0 {
			return getPath(fc, v, l.path, "cell")
		}
		return v
	case 4:
		return fc.mapRead(st, VOpaque{l.slice.Rgn, l.slice.Elem}, l.idx)
	}
	fc.havocs++
	return fc.freshVal(l.typ, "unk")
}

func (fc *FnCtx) storeLoc(st *State, l loc, v Val) {
	switch l.kind {
	case 0:
		if len(l.path) == 0 {
			st.vars[l.v] = v
			return
		}
		root, ok := st.vars[l.v]
		if !ok {
			root = fc.freshVal(l.v.Type(), l.v.Name())
		}
		st.vars[l.v] = setPath(fc, root, l.path, v, l.v.Name())
	case 1:
		root := st.objs[l.obj]
		if root == nil {
			root = fc.freshVal(l.typ, fmt.Sprintf("o%d", l.obj))
		}
		st.objs[l.obj] = setPath(fc, root, l.path, v, "o")
	case 2:
		if len(l.path) > 0 {
			// one field of a cell-encoded element: rewrite the whole cell
			cur := fc.readElem(st, l.slice, l.idx)
			v = setPath(fc, cur, l.path, v, "cell")
		}
		fc.writeElem(st, l.slice, l.idx, v)
	case 4:
		fc.mapWrite(st, VOpaque{l.slice.Rgn, l.slice.Elem}, l.idx, asInt(v))
	default:
		// unknown location: in lenient mode the write is dropped (the location reads back as unknown)
		if !fc.lenient {
			panic(unsupported("write to an unmodelled location"))
		}
		fc.havocs++
	}
}

func (fc *FnCtx) writeElem(st *State, s VSlice, i T, v Val) {
	if isByteElem(s.Elem) {
		cell := add(s.Off, i)
		fc.frameWrite(st, tTrue, s.Rgn, cell, add(cell, mkInt(1)), fc.curPos, "index-write")
		na := store(sel(st.heap, s.Rgn), cell, asInt(v))
		st.heap = fc.define(store(st.heap, s.Rgn, na), "H")
		return
	}
	fc.eng.writeGenericElem(fc, st, s, i, v)
}

// ptrLoc returns the location a pointer refers to, allocating one object per unknown pointer identity.
func (fc *FnCtx) ptrLoc(st *State, p VPtr) loc {
	if p.Obj >= 0 {
		return loc{kind: 1, obj: p.Obj, typ: p.Elem}
	}
	if p.Obj == -2 {
		if l, ok := fc.fieldPtrs[p.ID.S]; ok {
			return l
		}
	}
	key := "ptr:" + p.ID.S
	if o, ok := st.ghost[key]; ok {
		return loc{kind: 1, obj: fc.objIndex(o), typ: p.Elem}
	}
	id := fc.newObj(st, fc.freshVal(p.Elem, "tgt"))
	st.ghost[key] = VInt{mkInt(int64(id))}
	fc.assumptions["pointers with distinct symbolic identities refer to distinct objects (no aliasing between pointer-typed fields)"] = true
	return loc{kind: 1, obj: id, typ: p.Elem}
}

func (fc *FnCtx) objIndex(v Val) int {
	c, _ := constOf(v.(VInt).T)
	return int(c.Int64())
}

// lvalue resolves an addressable expression.
func (fc *FnCtx) lvalue(st *State, e ast.Expr) loc {
	switch x := e.(type) {
	case *ast.ParenExpr:
		return fc.lvalue(st, x.X)
	case *ast.Ident:
		obj := fc.pkg.TypesInfo.ObjectOf(x)
		if v, ok := obj.(*types.Var); ok {
			if v.Parent() == v.Pkg().Scope() {
				return loc{kind: 3, typ: v.Type()}
			}
			if o, ok := st.ghost[boxKey(v)]; ok {
				return loc{kind: 1, obj: fc.objIndex(o), typ: v.Type()}
			}
			return loc{kind: 0, v: v, typ: v.Type()}
		}
	case *ast.SelectorExpr:
		sel, ok := fc.pkg.TypesInfo.Selections[x]
		if !ok || sel.Kind() != types.FieldVal {
			return loc{kind: 3, typ: fc.typeOf(e)}
		}
		base, btyp := fc.baseLoc(st, x.X)
		return fc.descend(st, base, btyp, sel)
	case *ast.IndexExpr:
		bt := fc.typeOf(x.X)
		switch u := bt.Underlying().(type) {
		case *types.Slice:
			s, ok := fc.eval(st, x.X).(VSlice)
			if !ok {
				return loc{kind: 3, typ: fc.typeOf(e)}
			}
			i := asInt(fc.eval(st, x.Index))
			fc.onIndex(st, x, i)
			fc.boundsAssert(st, "index", inRange(i, mkInt(0), s.Len), x)
			return loc{kind: 2, slice: s, idx: i, typ: u.Elem()}
		case *types.Array:
			base := fc.lvalue(st, x.X)
			iv := asInt(fc.eval(st, x.Index))
			fc.boundsAssert(st, "index", inRange(iv, mkInt(0), mkInt(u.Len())), x)
			if c, ok := constOf(iv); ok && base.kind != 3 {
				base.path = append(append([]string{}, base.path...), c.String())
				base.typ = u.Elem()
				return base
			}
			return loc{kind: 3, typ: u.Elem()}
		case *types.Map:
			if fc.lenient && isIntMap(fc.typeOf(x.X)) {
				if mv, ok := fc.eval(st, x.X).(VOpaque); ok {
					return loc{kind: 4, slice: VSlice{Rgn: mv.ID, Elem: mv.Typ}, idx: asInt(fc.eval(st, x.Index)), typ: fc.typeOf(e)}
				}
			}
			fc.eval(st, x.X)
			if kv, isInt := fc.eval(st, x.Index).(VInt); isInt {
				fc.onIndex(st, x, kv.T) // `on index M(k)` also hooks assignments to entries of a map variable M
			}
			return loc{kind: 3, typ: fc.typeOf(e)}
		case *types.Pointer: // pointer to array
			return loc{kind: 3, typ: fc.typeOf(e)}
		}
	case *ast.StarExpr:
		p := fc.eval(st, x.X)
		switch pv := p.(type) {
		case VPtr:
			fc.nilCheck(st, pv.ID, x)
			return fc.ptrLoc(st, pv)
		case VElemPtr:
			return loc{kind: 2, slice: pv.S, idx: pv.Idx, typ: pv.S.Elem}
		}
	}
	if !fc.lenient {
		panic(unsupported("lvalue " + fc.src(e) + " @" + fc.pos(e.Pos())))
	}
	return loc{kind: 3, typ: fc.typeOf(e)}
}

// baseLoc resolves the operand of a selector to a location holding a struct (auto-deref pointers).
func (fc *FnCtx) baseLoc(st *State, e ast.Expr) (loc, types.Type) {
	t := fc.typeOf(e)
	if pt, ok := t.Underlying().(*types.Pointer); ok {
		p := fc.eval(st, e)
		switch pv := p.(type) {
		case VPtr:
			fc.nilCheck(st, pv.ID, e)
			return fc.ptrLoc(st, pv), pt.Elem()
		case VElemPtr:
			return loc{kind: 2, slice: pv.S, idx: pv.Idx, typ: pt.Elem()}, pt.Elem()
		}
		return loc{kind: 3, typ: pt.Elem()}, pt.Elem()
	}
	if isAddressable(e) {
		return fc.lvalue(st, e), t
	}
	// non-addressable struct value (call result etc.): put it into a temporary object
	v := fc.eval(st, e)
	id := fc.newObj(st, v)
	return loc{kind: 1, obj: id, typ: t}, t
}

func isAddressable(e ast.Expr) bool {
	switch x := e.(type) {
	case *ast.ParenExpr:
		return isAddressable(x.X)
	case *ast.Ident:
		return true
	case *ast.SelectorExpr:
		return true
	case *ast.IndexExpr:
		return true
	case *ast.StarExpr:
		return true
	}
	return false
}

// descend follows a field selection (possibly through embedded fields) from base.
func (fc *FnCtx) descend(st *State, base loc, btyp types.Type, sel *types.Selection) loc {
	cur := base
	t := btyp
	idx := sel.Index()
	for k, fi := range idx {
		stt, ok := t.Underlying().(*types.Struct)
		if !ok {
			return loc{kind: 3, typ: sel.Type()}
		}
		f := stt.Field(fi)
		if cur.kind == 2 {
			// field of a slice element: handled by the generic-element layer
			return fc.eng.elemFieldLoc(fc, st, cur, f, idx[k+1:], sel)
		}
		if cur.kind == 3 {
			return loc{kind: 3, typ: sel.Type()}
		}
		cur.path = append(append([]string{}, cur.path...), f.Name())
		cur.typ = f.Type()
		t = f.Type()
		if k < len(idx)-1 {
			if pt, ok := t.Underlying().(*types.Pointer); ok {
				// implicit dereference through an embedded pointer
				pv, ok := fc.load(st, cur).(VPtr)
				if !ok {
					return loc{kind: 3, typ: sel.Type()}
				}
				cur = fc.ptrLoc(st, pv)
				t = pt.Elem()
			}
		}
	}
	return cur
}

func (fc *FnCtx) nilCheck(st *State, id T, e ast.Expr) {
	if id.S == "0" || fc.safetyActive() && !fc.lenient {
		fc.assert(st, "nil", "nil-deref["+fc.src(e)+"]", neq(id, mkInt(0)), e.Pos(), "")
		return
	}
	fc.assume(st, neq(id, mkInt(0)))
}

func (fc *FnCtx) evalSelector(st *State, x *ast.SelectorExpr) Val {
	// package-qualified identifier
	if id, ok := x.X.(*ast.Ident); ok {
		if _, isPkg := fc.pkg.TypesInfo.ObjectOf(id).(*types.PkgName); isPkg {
			return fc.evalIdent(st, x.Sel)
		}
	}
	sel, ok := fc.pkg.TypesInfo.Selections[x]
	if !ok {
		return fc.lenientFresh(x, "selector")
	}
	switch sel.Kind() {
	case types.FieldVal:
		l := fc.lvalueOrTemp(st, x)
		return fc.load(st, l)
	case types.MethodVal:
		fc.eval(st, x.X)
		id := fc.fresh("methodval", SInt)
		fc.axiom(lt(mkInt(0), id))
		return VOpaque{id, fc.typeOf(x)}
	}
	return fc.lenientFresh(x, "selector kind")
}

func (fc *FnCtx) lvalueOrTemp(st *State, x *ast.SelectorExpr) loc {
	sel := fc.pkg.TypesInfo.Selections[x]
	base, btyp := fc.baseLoc(st, x.X)
	return fc.descend(st, base, btyp, sel)
}

func (fc *FnCtx) deref(st *State, p Val, e ast.Expr) Val {
	switch pv := p.(type) {
	case VPtr:
		fc.nilCheck(st, pv.ID, e)
		return fc.load(st, fc.ptrLoc(st, pv))
	case VElemPtr:
		return fc.readElem(st, pv.S, pv.Idx)
	}
	return fc.lenientFresh(e.(ast.Expr), "dereference")
}

func (fc *FnCtx) addressOf(st *State, e ast.Expr) Val {
	switch x := e.(type) {
	case *ast.ParenExpr:
		return fc.addressOf(st, x.X)
	case *ast.CompositeLit:
		v := fc.evalCompositeLit(st, x)
		id := fc.newObj(st, v)
		pid := fc.fresh("new", SInt)
		fc.axiom(lt(mkInt(0), pid))
		return VPtr{pid, id, fc.typeOf(x)}
	case *ast.IndexExpr:
		if _, ok := fc.typeOf(x.X).Underlying().(*types.Slice); ok {
			s := fc.eval(st, x.X).(VSlice)
			i := asInt(fc.eval(st, x.Index))
			fc.onIndex(st, x, i)
			fc.boundsAssert(st, "index", inRange(i, mkInt(0), s.Len), x)
			return VElemPtr{s, i}
		}
	}
	l := fc.lvalue(st, e)
	t := fc.typeOf(e)
	switch l.kind {
	case 1:
		if len(l.path) == 0 {
			pid := fc.fresh("addr", SInt)
			fc.axiom(lt(mkInt(0), pid))
			return VPtr{pid, l.obj, t}
		}
	case 0:
		if len(l.path) == 0 {
			// address of a local: move the local into an object? keep simple: locals whose address is taken
			// live in objects from their declaration on (see declareVar).
			cur, ok := st.vars[l.v]
			if !ok {
				cur = fc.freshVal(l.v.Type(), l.v.Name())
			}
			id := fc.newObj(st, cur)
			st.ghost[boxKey(l.v)] = VInt{mkInt(int64(id))}
			delete(st.vars, l.v)
			pid := fc.fresh("addr", SInt)
			fc.axiom(lt(mkInt(0), pid))
			return VPtr{pid, id, t}
		}
	}
	// address of a field or unknown location: identity only; the target is tracked when it is a sub-object path
	if l.kind == 1 || l.kind == 0 {
		return fc.fieldPtr(st, l, t)
	}
	pid := fc.fresh("addr", SInt)
	fc.axiom(lt(mkInt(0), pid))
	if !fc.lenient {
		panic(unsupported("address of " + fc.src(e)))
	}
	return VPtr{pid, -1, t}
}

// fieldPtr models &x.f: the pointer carries its location so that calls can havoc exactly that sub-tree.
func (fc *FnCtx) fieldPtr(st *State, l loc, t types.Type) Val {
	pid := fc.fresh("addr", SInt)
	fc.axiom(lt(mkInt(0), pid))
	fc.fieldPtrs[pid.S] = l
	return VPtr{pid, -2, t} // -2: interior pointer, location recorded in eng.fieldPtrs
}

func (fc *FnCtx) evalCompositeLit(st *State, x *ast.CompositeLit) Val {
	t := fc.typeOf(x)
	switch u := t.Underlying().(type) {
	case *types.Struct:
		v := fc.zeroVal(t).(VStruct)
		for i, el := range x.Elts {
			if kv, ok := el.(*ast.KeyValueExpr); ok {
				name := kv.Key.(*ast.Ident).Name
				v = withField(v, name, fc.coerce(st, fc.eval(st, kv.Value), fieldType(t, name)))
			} else {
				name := u.Field(i).Name()
				v = withField(v, name, fc.coerce(st, fc.eval(st, el), u.Field(i).Type()))
			}
		}
		return v
	case *types.Slice:
		if isByteElem(u.Elem()) {
			var elems []T
			for _, el := range x.Elts {
				if _, ok := el.(*ast.KeyValueExpr); ok {
					return fc.lenientFresh(x, "keyed slice literal")
				}
				elems = append(elems, asInt(fc.eval(st, el)))
			}
			return fc.allocBytes(st, elems)
		}
		for _, el := range x.Elts {
			if kv, ok := el.(*ast.KeyValueExpr); ok {
				fc.eval(st, kv.Value)
			} else {
				fc.eval(st, el)
			}
		}
		if !fc.lenient && len(x.Elts) > 0 {
			panic(unsupported("slice literal of " + u.Elem().String()))
		}
		s := fc.freshVal(t, "lit").(VSlice)
		fc.axiom(eq(s.Len, mkInt(int64(len(x.Elts)))))
		return s
	case *types.Array:
		v := VStruct{t, map[string]Val{}}
		for i, el := range x.Elts {
			if _, ok := el.(*ast.KeyValueExpr); ok {
				return fc.lenientFresh(x, "keyed array literal")
			}
			v = withField(v, fmt.Sprint(i), fc.eval(st, el))
		}
		return v
	case *types.Map:
		id := fc.fresh("map", SInt)
		fc.axiom(lt(mkInt(0), id))
		return VOpaque{id, t}
	}
	return fc.lenientFresh(x, "composite literal")
}

// allocBytes creates a fresh region holding the given cells.
func (fc *FnCtx) allocBytes(st *State, elems []T) VSlice {
	r := st.nextR
	st.nextR = fc.define(add(st.nextR, mkInt(1)), "nextR")
	arr := sel(st.heap, r)
	for i, e := range elems {
		arr = store(arr, mkInt(int64(i)), e)
	}
	if len(elems) > 0 {
		st.heap = fc.define(store(st.heap, r, arr), "H")
	}
	n := mkInt(int64(len(elems)))
	return VSlice{r, mkInt(0), n, n, types.Typ[types.Uint8]}
}

func (fc *FnCtx) evalTypeAssert(st *State, x *ast.TypeAssertExpr, commaOk bool) Val {
	fc.eval(st, x.X)
	if !fc.lenient && !commaOk {
		// the single-value form can panic; the comma-ok form cannot (both outcomes are explored, the value is unknown)
		panic(unsupported("type assertion " + fc.src(x)))
	}
	fc.havocs++
	if x.Type == nil {
		return VOpaque{fc.fresh("ta", SInt), nil}
	}
	v := fc.freshVal(fc.pkg.TypesInfo.TypeOf(x.Type), "ta")
	if commaOk {
		return VTuple{v, VBool{fc.fresh("ok", SBool)}}
	}
	return v
}

// coerce adapts v to the static type t where representations differ (e.g. nil literal -> slice / pointer).
func (fc *FnCtx) coerce(st *State, v Val, t types.Type) Val {
	if t == nil {
		return v
	}
	if iv, ok := v.(VInt); ok && iv.T.S == "0" {
		switch t.Underlying().(type) {
		case *types.Slice, *types.Pointer, *types.Map, *types.Chan, *types.Signature:
			return fc.zeroVal(t)
		case *types.Interface:
			if !isErrorType(t) {
				return fc.zeroVal(t)
			}
		}
	}
	if _, isIface := t.Underlying().(*types.Interface); isIface && !isErrorType(t) {
		switch x := v.(type) {
		case VOpaque:
			return x
		case VPtr:
			return VOpaque{x.ID, t}
		case VInt:
			return VOpaque{x.T, t}
		default:
			id := fc.fresh("iface", SInt)
			fc.axiom(lt(mkInt(0), id))
			return VOpaque{id, t}
		}
	}
	if isErrorType(t) {
		switch x := v.(type) {
		case VPtr:
			return VInt{x.ID}
		case VOpaque:
			return VInt{x.ID}
		case VStruct, VStr, VSlice:
			id := fc.fresh("errv", SInt)
			fc.axiom(lt(mkInt(int64(fc.eng.maxErrCode())), id))
			return VInt{id}
		}
	}
	return v
}

func boxKey(v types.Object) string { return fmt.Sprintf("boxed:%s@%d", v.Name(), v.Pos()) }
