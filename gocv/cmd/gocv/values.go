package main

import (
	"fmt"
	"go/types"
	"sort"
	"strings"
)

// Val is the translator's view of a Go (or ghost) value: a tuple of SMT terms.
type Val interface{}

type (
	// VInt: any integer kind, error codes, rune.
	VInt struct{ T T }
	// VBool: booleans.
	VBool struct{ T T }
	// VSlice: a program slice (region, offset, len, cap). Elem is the Go element type.
	VSlice struct {
		Rgn, Off, Len, Cap T
		Elem               types.Type
	}
	// VStr: immutable byte sequence (strings, spec-level sequences).
	VStr struct{ Arr, Off, Len T }
	// VStruct: struct by value. F is treated as immutable (copy on update).
	VStruct struct {
		Typ types.Type
		F   map[string]Val
	}
	// VPtr: pointer; ID is an Int identity (0 = nil); Obj indexes State.objs (-1 = unknown target).
	VPtr struct {
		ID   T
		Obj  int
		Elem types.Type
	}
	// VElemPtr: &s[i].
	VElemPtr struct {
		S   VSlice
		Idx T
	}
	// VOpaque: interface / func / map / chan values: identity only (0 = nil).
	VOpaque struct {
		ID  T
		Typ types.Type
	}
	// VTuple: multiple results.
	VTuple []Val
)

// State is one symbolic execution state.
type State struct {
	pc       T
	vars     map[types.Object]Val
	ghost    map[string]Val
	objs     map[int]Val
	heap     T // SHeap: byte regions
	cheap    T // SHeap: regions of cell-encoded struct slices (see cells.go); kept apart so that writing cells never touches bytes
	nextR    T // Int: next fresh region id
	held     map[string]T
	lockSnap *State // the state right after the most recent Lock of a monitored lock (read by atlock(); never modified)
}

func (s *State) clone() *State {
	n := &State{pc: s.pc, heap: s.heap, cheap: s.cheap, nextR: s.nextR, lockSnap: s.lockSnap,
		vars: make(map[types.Object]Val, len(s.vars)), ghost: make(map[string]Val, len(s.ghost)),
		objs: make(map[int]Val, len(s.objs)), held: map[string]T{}}
	for k, v := range s.vars {
		n.vars[k] = v
	}
	for k, v := range s.ghost {
		n.ghost[k] = v
	}
	for k, v := range s.objs {
		n.objs[k] = v
	}
	for k, v := range s.held {
		n.held[k] = v
	}
	return n
}

// valEq builds equality of two values of the same shape (identity for slices).
func valEq(a, b Val) T {
	switch x := a.(type) {
	case VInt:
		switch y := b.(type) {
		case VInt:
			return eq(x.T, y.T)
		case VOpaque:
			return eq(x.T, y.ID)
		case VPtr:
			return eq(x.T, y.ID)
		}
	case VBool:
		if y, ok := b.(VBool); ok {
			return eq(x.T, y.T)
		}
	case VSlice:
		if y, ok := b.(VSlice); ok {
			return and(eq(x.Rgn, y.Rgn), eq(x.Off, y.Off), eq(x.Len, y.Len), eq(x.Cap, y.Cap))
		}
	case VStr:
		if y, ok := b.(VStr); ok {
			return and(eq(x.Arr, y.Arr), eq(x.Off, y.Off), eq(x.Len, y.Len))
		}
	case VPtr:
		switch y := b.(type) {
		case VPtr:
			return eq(x.ID, y.ID)
		case VInt:
			return eq(x.ID, y.T)
		case VOpaque:
			return eq(x.ID, y.ID)
		}
	case VOpaque:
		switch y := b.(type) {
		case VOpaque:
			return eq(x.ID, y.ID)
		case VInt:
			return eq(x.ID, y.T)
		case VPtr:
			return eq(x.ID, y.ID)
		}
	case VStruct:
		if y, ok := b.(VStruct); ok {
			var cs []T
			for _, k := range sortedKeys(x.F) {
				if yv, ok := y.F[k]; ok {
					cs = append(cs, valEq(x.F[k], yv))
				}
			}
			return and(cs...)
		}
	case VElemPtr:
		if y, ok := b.(VElemPtr); ok {
			return and(valEq(x.S, y.S), eq(x.Idx, y.Idx))
		}
	case VTuple:
		if y, ok := b.(VTuple); ok && len(x) == len(y) {
			var cs []T
			for i := range x {
				cs = append(cs, valEq(x[i], y[i]))
			}
			return and(cs...)
		}
	}
	panic(unsupported(fmt.Sprintf("equality between %T and %T", a, b)))
}

func sortedKeys(m map[string]Val) []string {
	ks := make([]string, 0, len(m))
	for k := range m {
		ks = append(ks, k)
	}
	sort.Strings(ks)
	return ks
}

// valIte merges two values under condition c.
func (fc *FnCtx) valIte(c T, a, b Val, hint string) Val {
	if a == nil {
		return b
	}
	if b == nil {
		return a
	}
	m := func(x, y T) T {
		if x.S == y.S {
			return x
		}
		return fc.define(ite(c, x, y), hint)
	}
	switch x := a.(type) {
	case VInt:
		if y, ok := b.(VInt); ok {
			return VInt{m(x.T, y.T)}
		}
	case VBool:
		if y, ok := b.(VBool); ok {
			return VBool{m(x.T, y.T)}
		}
	case VSlice:
		if y, ok := b.(VSlice); ok {
			return VSlice{m(x.Rgn, y.Rgn), m(x.Off, y.Off), m(x.Len, y.Len), m(x.Cap, y.Cap), x.Elem}
		}
	case VStr:
		if y, ok := b.(VStr); ok {
			return VStr{m(x.Arr, y.Arr), m(x.Off, y.Off), m(x.Len, y.Len)}
		}
	case VPtr:
		if y, ok := b.(VPtr); ok {
			o := x.Obj
			if y.Obj != o {
				o = -1
			}
			return VPtr{m(x.ID, y.ID), o, x.Elem}
		}
	case VOpaque:
		if y, ok := b.(VOpaque); ok {
			return VOpaque{m(x.ID, y.ID), x.Typ}
		}
	case VElemPtr:
		if y, ok := b.(VElemPtr); ok {
			return VElemPtr{fc.valIte(c, x.S, y.S, hint).(VSlice), m(x.Idx, y.Idx)}
		}
	case VStruct:
		if y, ok := b.(VStruct); ok {
			nf := make(map[string]Val, len(x.F))
			// a field materialised on one side only is materialised on the other (as that side's unknown value):
			// `if c { x.f = v }` must not forget x.f on the path that assigned it
			for _, k := range sortedKeys(x.F) {
				if _, ok := y.F[k]; !ok && fieldType(y.Typ, k) != nil {
					fc.structField(y, k, hint)
				}
			}
			for _, k := range sortedKeys(y.F) {
				if _, ok := x.F[k]; !ok && fieldType(x.Typ, k) != nil {
					fc.structField(x, k, hint)
				}
			}
			for _, k := range sortedKeys(x.F) {
				if yv, ok := y.F[k]; ok {
					nf[k] = fc.valIte(c, x.F[k], yv, hint+"."+k)
				}
			}
			return VStruct{x.Typ, nf}
		}
	case VTuple:
		if y, ok := b.(VTuple); ok && len(x) == len(y) {
			r := make(VTuple, len(x))
			for i := range x {
				r[i] = fc.valIte(c, x[i], y[i], hint)
			}
			return r
		}
	}
	panic(unsupported(fmt.Sprintf("merge of %T and %T (%s)", a, b, hint)))
}

func sameVal(a, b Val) bool {
	switch x := a.(type) {
	case VInt:
		y, ok := b.(VInt)
		return ok && x.T.S == y.T.S
	case VBool:
		y, ok := b.(VBool)
		return ok && x.T.S == y.T.S
	case VSlice:
		y, ok := b.(VSlice)
		return ok && x.Rgn.S == y.Rgn.S && x.Off.S == y.Off.S && x.Len.S == y.Len.S && x.Cap.S == y.Cap.S
	case VStr:
		y, ok := b.(VStr)
		return ok && x.Arr.S == y.Arr.S && x.Off.S == y.Off.S && x.Len.S == y.Len.S
	case VPtr:
		y, ok := b.(VPtr)
		return ok && x.ID.S == y.ID.S && x.Obj == y.Obj
	case VOpaque:
		y, ok := b.(VOpaque)
		return ok && x.ID.S == y.ID.S
	case VElemPtr:
		y, ok := b.(VElemPtr)
		return ok && sameVal(x.S, y.S) && x.Idx.S == y.Idx.S
	case VStruct:
		y, ok := b.(VStruct)
		if !ok || len(x.F) != len(y.F) {
			return false
		}
		for k, xv := range x.F {
			yv, ok := y.F[k]
			if !ok || !sameVal(xv, yv) {
				return false
			}
		}
		return true
	case VTuple:
		y, ok := b.(VTuple)
		if !ok || len(x) != len(y) {
			return false
		}
		for i := range x {
			if !sameVal(x[i], y[i]) {
				return false
			}
		}
		return true
	}
	return false
}

// mergeStates joins any number of live states into one.
func (fc *FnCtx) mergeStates(sts []*State) *State {
	var live []*State
	for _, s := range sts {
		if s != nil {
			live = append(live, s)
		}
	}
	if len(live) == 0 {
		return nil
	}
	cur := live[0]
	for _, s := range live[1:] {
		cur = fc.merge2(cur, s)
	}
	return cur
}

func (fc *FnCtx) merge2(a, b *State) *State {
	n := a.clone()
	n.pc = fc.define(or(a.pc, b.pc), "pc")
	c := a.pc // choose a's values when a.pc holds
	for k, av := range a.vars {
		bv, ok := b.vars[k]
		if !ok {
			delete(n.vars, k)
			continue
		}
		if !sameVal(av, bv) {
			n.vars[k] = fc.valIte(c, av, bv, k.Name())
		}
	}
	// The object an (unknown) pointer refers to is allocated at its first dereference ("ptr:<id>" -> object). When only
	// one of the two paths has dereferenced the pointer, the mapping is kept and the object becomes "that path's value
	// on that path, unknown on the other" -- so `if c { p.f = v }` is remembered after the join.
	onlyA, onlyB := map[int]bool{}, map[int]bool{}
	unknownLike := func(v Val) Val {
		if sv, ok := v.(VStruct); ok {
			return VStruct{sv.Typ, map[string]Val{}}
		}
		return fc.havocLike(v, "unk")
	}
	for k, av := range a.ghost {
		bv, ok := b.ghost[k]
		if !ok {
			if strings.HasPrefix(k, "ptr:") {
				if iv, isInt := av.(VInt); isInt {
					if cst, isC := constOf(iv.T); isC {
						onlyA[int(cst.Int64())] = true
						continue // keep n.ghost[k] (cloned from a)
					}
				}
			}
			delete(n.ghost, k)
			continue
		}
		if !sameVal(av, bv) {
			n.ghost[k] = fc.valIte(c, av, bv, "g_"+k)
		}
	}
	for k, bv := range b.ghost {
		if _, ok := a.ghost[k]; !ok && strings.HasPrefix(k, "ptr:") {
			if iv, isInt := bv.(VInt); isInt {
				if cst, isC := constOf(iv.T); isC {
					onlyB[int(cst.Int64())] = true
					n.ghost[k] = bv
				}
			}
		}
	}
	for k, av := range a.objs {
		bv, ok := b.objs[k]
		if !ok {
			if onlyA[k] {
				n.objs[k] = fc.valIte(c, av, unknownLike(av), fmt.Sprintf("o%d", k))
			}
			continue
		}
		if !sameVal(av, bv) {
			n.objs[k] = fc.valIte(c, av, bv, fmt.Sprintf("o%d", k))
		}
	}
	for k, bv := range b.objs {
		if _, ok := a.objs[k]; !ok {
			if onlyB[k] {
				n.objs[k] = fc.valIte(c, unknownLike(bv), bv, fmt.Sprintf("o%d", k))
			} else {
				n.objs[k] = bv
			}
		}
	}
	if a.heap.S != b.heap.S {
		n.heap = fc.define(ite(c, a.heap, b.heap), "H")
	}
	if a.cheap.S != b.cheap.S {
		n.cheap = fc.define(ite(c, a.cheap, b.cheap), "C")
	}
	if a.lockSnap != b.lockSnap {
		n.lockSnap = nil // the paths took the lock at different points: atlock() has no single reference state
	}
	if a.nextR.S != b.nextR.S {
		n.nextR = fc.define(ite(c, a.nextR, b.nextR), "nextR")
	}
	for k, av := range a.held {
		if bv, ok := b.held[k]; ok && av.S != bv.S {
			n.held[k] = fc.define(ite(c, av, bv), "held")
		}
	}
	return n
}

// materializeStruct makes every field of a struct value explicit (fields of unknown structs are created lazily), so
// that comparing two struct values compares all of their fields -- not only those both sides happen to have touched.
func (fc *FnCtx) materializeStruct(v Val, depth int) {
	sv, ok := v.(VStruct)
	if !ok || sv.F == nil || depth > 3 {
		return
	}
	st, ok := sv.Typ.Underlying().(*types.Struct)
	if !ok {
		return
	}
	for i := 0; i < st.NumFields(); i++ {
		f, _ := fc.structField(sv, st.Field(i).Name(), "m")
		fc.materializeStruct(f, depth+1)
	}
}
