package main

import (
	"fmt"
	"go/ast"
	"go/token"
	"go/types"
	"strings"
)

// adoptEffects copies heap/object/ghost changes made in a guarded sub-state back into st
// (merged under the sub-state's guard).
func (fc *FnCtx) adoptEffects(st, sub *State) {
	if sub.heap.S == st.heap.S && sub.cheap.S == st.cheap.S && sub.nextR.S == st.nextR.S && len(sub.objs) == len(st.objs) && len(sub.ghost) == len(st.ghost) {
		same := true
		for k, v := range sub.objs {
			if ov, ok := st.objs[k]; !ok || !sameVal(v, ov) {
				same = false
				break
			}
		}
		for k, v := range sub.ghost {
			if ov, ok := st.ghost[k]; !ok || !sameVal(v, ov) {
				same = false
				break
			}
		}
		for k, v := range sub.vars {
			if ov, ok := st.vars[k]; !ok || !sameVal(v, ov) {
				same = false
				break
			}
		}
		if same {
			return
		}
	}
	// general case: merge(sub, st-without-sub)
	g := sub.pc
	for k, v := range sub.vars {
		if ov, ok := st.vars[k]; ok && !sameVal(v, ov) {
			st.vars[k] = fc.valIte(g, v, ov, k.Name())
		} else if !ok {
			st.vars[k] = v
		}
	}
	for k, v := range sub.ghost {
		if ov, ok := st.ghost[k]; ok && !sameVal(v, ov) {
			st.ghost[k] = fc.valIte(g, v, ov, k)
		} else if !ok {
			st.ghost[k] = v
		}
	}
	for k, v := range sub.objs {
		if ov, ok := st.objs[k]; ok && !sameVal(v, ov) {
			st.objs[k] = fc.valIte(g, v, ov, "o")
		} else if !ok {
			st.objs[k] = v
		}
	}
	if sub.heap.S != st.heap.S {
		st.heap = fc.define(ite(g, sub.heap, st.heap), "H")
	}
	if sub.cheap.S != st.cheap.S {
		st.cheap = fc.define(ite(g, sub.cheap, st.cheap), "C")
	}
	if sub.lockSnap != st.lockSnap {
		st.lockSnap = nil
	}
	if sub.nextR.S != st.nextR.S {
		st.nextR = fc.define(ite(g, sub.nextR, st.nextR), "nextR")
	}
}

// branch splits st on a boolean Go expression into (then, else) states, handling && || ! structurally.
func (fc *FnCtx) branch(st *State, cond ast.Expr) (*State, *State) {
	switch x := cond.(type) {
	case *ast.ParenExpr:
		return fc.branch(st, x.X)
	case *ast.UnaryExpr:
		if x.Op == token.NOT {
			t, f := fc.branch(st, x.X)
			return f, t
		}
	case *ast.BinaryExpr:
		switch x.Op {
		case token.LAND:
			t1, f1 := fc.branch(st, x.X)
			var t2, f2 *State
			if t1 != nil {
				t2, f2 = fc.branch(t1, x.Y)
			}
			return t2, fc.mergeStates([]*State{f1, f2})
		case token.LOR:
			t1, f1 := fc.branch(st, x.X)
			var t2, f2 *State
			if f1 != nil {
				t2, f2 = fc.branch(f1, x.Y)
			}
			return fc.mergeStates([]*State{t1, t2}), f2
		}
	}
	c := asBool(fc.eval(st, cond))
	return fc.split(st, c)
}

func (fc *FnCtx) split(st *State, c T) (*State, *State) {
	if c.S == "true" {
		return st, nil
	}
	if c.S == "false" {
		return nil, st
	}
	c = fc.define(c, "c")
	t := st.clone()
	t.pc = fc.definePC(and(st.pc, c))
	f := st.clone()
	f.pc = fc.definePC(and(st.pc, not(c)))
	return t, f
}

func (fc *FnCtx) definePC(t T) T {
	n := fc.fresh("pc", SBool)
	fc.facts = append(fc.facts, eq(n, t).S)
	return n
}

func (fc *FnCtx) execBlock(st *State, stmts []ast.Stmt) *State {
	for _, s := range stmts {
		if st == nil {
			return nil
		}
		st = fc.exec(st, s, "")
		fc.maintainCheck(st, s)
	}
	return st
}

// exec runs one statement; returns the fall-through state (nil when control never falls through).
func (fc *FnCtx) exec(st *State, s ast.Stmt, label string) *State {
	if st == nil {
		return nil
	}
	fc.curPos = s.Pos()
	switch x := s.(type) {
	case *ast.BlockStmt:
		return fc.execBlock(st, x.List)
	case *ast.ExprStmt:
		if call, ok := x.X.(*ast.CallExpr); ok {
			if fc.isPanicCall(call) {
				fc.execPanic(st, call)
				return nil
			}
			fc.evalCall(st, call, true)
			return st
		}
		fc.eval(st, x.X)
		return st
	case *ast.AssignStmt:
		fc.execAssign(st, x)
		return st
	case *ast.DeclStmt:
		gd, ok := x.Decl.(*ast.GenDecl)
		if !ok || gd.Tok != token.VAR {
			return st
		}
		for _, sp := range gd.Specs {
			vs := sp.(*ast.ValueSpec)
			if len(vs.Values) == 1 && len(vs.Names) > 1 {
				v := fc.eval(st, vs.Values[0])
				tup, ok := v.(VTuple)
				if !ok {
					panic(unsupported("multi-value var decl"))
				}
				for i, n := range vs.Names {
					fc.declare(st, n, tup[i])
				}
				continue
			}
			for i, n := range vs.Names {
				obj := fc.pkg.TypesInfo.Defs[n]
				if obj == nil {
					continue
				}
				if i < len(vs.Values) {
					fc.declare(st, n, fc.coerce(st, fc.eval(st, vs.Values[i]), obj.Type()))
				} else {
					fc.declare(st, n, fc.zeroVal(obj.Type()))
				}
			}
		}
		return st
	case *ast.IncDecStmt:
		fc.monitorWrite(st, x.X)
		l := fc.lvalue(st, x.X)
		cur := asInt(fc.load(st, l))
		t := fc.typeOf(x.X)
		bits, signed, _ := fc.intInfo(t)
		op := token.ADD
		if x.Tok == token.DEC {
			op = token.SUB
		}
		fc.storeLoc(st, l, VInt{fc.arith(st, op, cur, mkInt(1), t, bits, signed, x.X, nil)})
		return st
	case *ast.IfStmt:
		if x.Init != nil {
			st = fc.exec(st, x.Init, "")
		}
		t, f := fc.branch(st, x.Cond)
		var outs []*State
		if t != nil {
			outs = append(outs, fc.execBlock(t, x.Body.List))
		}
		if f != nil {
			if x.Else != nil {
				outs = append(outs, fc.exec(f, x.Else, ""))
			} else {
				outs = append(outs, f)
			}
		}
		return fc.mergeStates(outs)
	case *ast.ForStmt:
		return fc.execFor(st, x, label)
	case *ast.RangeStmt:
		return fc.execRange(st, x, label)
	case *ast.ReturnStmt:
		fc.execReturn(st, x)
		return nil
	case *ast.BranchStmt:
		switch x.Tok {
		case token.BREAK, token.CONTINUE:
			lbl := ""
			if x.Label != nil {
				lbl = x.Label.Name
			}
			for i := len(fc.breakStk) - 1; i >= 0; i-- {
				jt := fc.breakStk[i]
				if lbl != "" && jt.label != lbl {
					continue
				}
				if x.Tok == token.CONTINUE && !jt.isLoop {
					continue
				}
				if x.Tok == token.BREAK {
					jt.breaks = append(jt.breaks, st)
				} else {
					jt.continues = append(jt.continues, st)
				}
				return nil
			}
			panic(unsupported("break/continue without target"))
		case token.GOTO:
			panic(unsupported("goto"))
		case token.FALLTHROUGH:
			panic(unsupported("fallthrough"))
		}
	case *ast.LabeledStmt:
		return fc.exec(st, x.Stmt, x.Label.Name)
	case *ast.SwitchStmt:
		return fc.execSwitch(st, x, label)
	case *ast.TypeSwitchStmt:
		return fc.execTypeSwitch(st, x, label)
	case *ast.DeferStmt:
		fc.defers = append(fc.defers, deferred{call: x.Call, pc: st.pc})
		// arguments are evaluated now; we evaluate them for their safety obligations only
		for _, a := range x.Call.Args {
			if _, isLit := a.(*ast.FuncLit); !isLit {
				fc.eval(st, a)
			}
		}
		return st
	case *ast.GoStmt:
		fc.execGo(st, x)
		return st
	case *ast.SelectStmt:
		return fc.execSelect(st, x, label)
	case *ast.SendStmt:
		fc.eval(st, x.Chan)
		fc.eval(st, x.Value)
		fc.onChan(st, "send", x.Chan, x)
		if !fc.lenient {
			panic(unsupported("channel send"))
		}
		return st
	case *ast.EmptyStmt:
		return st
	}
	panic(unsupported(fmt.Sprintf("statement %T @%s", s, fc.pos(s.Pos()))))
}

func (fc *FnCtx) declare(st *State, id *ast.Ident, v Val) {
	if id.Name == "_" {
		return
	}
	obj := fc.pkg.TypesInfo.Defs[id]
	if obj == nil {
		// redeclaration in := with existing var
		obj = fc.pkg.TypesInfo.Uses[id]
	}
	if ov, ok := obj.(*types.Var); ok {
		delete(st.ghost, boxKey(ov)) // a fresh instance per declaration
		st.vars[ov] = fc.nameVal(fc.coerce(st, v, ov.Type()), ov.Name())
	}
}

// nameVal gives large terms a name (keeps later formulas small).
func (fc *FnCtx) nameVal(v Val, hint string) Val {
	switch x := v.(type) {
	case VInt:
		return VInt{fc.define(x.T, hint)}
	case VBool:
		return VBool{fc.define(x.T, hint)}
	case VSlice:
		return VSlice{fc.define(x.Rgn, hint+".r"), fc.define(x.Off, hint+".o"), fc.define(x.Len, hint+".n"), fc.define(x.Cap, hint+".c"), x.Elem}
	case VStr:
		return VStr{x.Arr, fc.define(x.Off, hint+".o"), fc.define(x.Len, hint+".n")}
	}
	return v
}

func (fc *FnCtx) execAssign(st *State, x *ast.AssignStmt) {
	for _, l := range x.Lhs {
		fc.monitorWrite(st, l)
	}
	// op-assign
	if x.Tok != token.ASSIGN && x.Tok != token.DEFINE {
		l := fc.lvalue(st, x.Lhs[0])
		cur := fc.load(st, l)
		rhs := fc.eval(st, x.Rhs[0])
		t := fc.typeOf(x.Lhs[0])
		var op token.Token
		switch x.Tok {
		case token.ADD_ASSIGN:
			op = token.ADD
		case token.SUB_ASSIGN:
			op = token.SUB
		case token.MUL_ASSIGN:
			op = token.MUL
		case token.QUO_ASSIGN:
			op = token.QUO
		case token.REM_ASSIGN:
			op = token.REM
		case token.SHL_ASSIGN:
			op = token.SHL
		case token.SHR_ASSIGN:
			op = token.SHR
		case token.AND_ASSIGN:
			op = token.AND
		case token.OR_ASSIGN:
			op = token.OR
		case token.XOR_ASSIGN:
			op = token.XOR
		case token.AND_NOT_ASSIGN:
			op = token.AND_NOT
		}
		if cs, ok := cur.(VStr); ok && op == token.ADD {
			fc.storeLoc(st, l, fc.concat(st, cs, rhs.(VStr)))
			return
		}
		bits, signed, ok := fc.intInfo(t)
		if !ok {
			fc.storeLoc(st, l, fc.lenientFresh(x.Lhs[0], "op-assign on non-integer"))
			return
		}
		// build a synthetic binary expression for naming purposes
		be := &ast.BinaryExpr{X: x.Lhs[0], Op: op, Y: x.Rhs[0], OpPos: x.TokPos}
		r := fc.arithSyn(st, op, asInt(cur), asInt(rhs), t, bits, signed, be, x.Lhs[0])
		fc.storeLoc(st, l, VInt{r})
		return
	}
	var vals []Val
	if len(x.Rhs) == 1 && len(x.Lhs) > 1 {
		var v Val
		switch r := x.Rhs[0].(type) {
		case *ast.CallExpr:
			v = fc.evalCall(st, r, false)
		case *ast.TypeAssertExpr:
			v = fc.evalTypeAssert(st, r, true)
		case *ast.IndexExpr: // v, ok := m[k]
			if mv, isM := fc.eval(st, r.X).(VOpaque); isM && fc.lenient && isIntMap(fc.typeOf(r.X)) {
				k := asInt(fc.eval(st, r.Index))
				v = VTuple{fc.mapRead(st, mv, k), VBool{fc.mapPresentIn(st.cheap, mv.ID, k)}}
				break
			}
			fc.eval(st, r.Index)
			if !fc.lenient {
				panic(unsupported("comma-ok map lookup"))
			}
			v = VTuple{fc.freshVal(fc.typeOf(x.Lhs[0]), "mv"), VBool{fc.fresh("ok", SBool)}}
		case *ast.UnaryExpr: // v, ok := <-ch
			if !fc.lenient {
				panic(unsupported("comma-ok receive"))
			}
			v = VTuple{fc.freshVal(fc.typeOf(x.Lhs[0]), "rv"), VBool{fc.fresh("ok", SBool)}}
		default:
			panic(unsupported("multi-assign from " + fc.src(x.Rhs[0])))
		}
		tup, ok := v.(VTuple)
		if !ok || len(tup) != len(x.Lhs) {
			panic(unsupported("tuple arity mismatch at " + fc.pos(x.Pos())))
		}
		vals = tup
	} else {
		for _, r := range x.Rhs {
			vals = append(vals, fc.eval(st, r))
		}
	}
	// evaluate all lvalues before storing (Go semantics for tuple assignment)
	type tgt struct {
		l     loc
		decl  *ast.Ident
		blank bool
	}
	tgts := make([]tgt, len(x.Lhs))
	for i, lh := range x.Lhs {
		if id, ok := lh.(*ast.Ident); ok {
			if id.Name == "_" {
				tgts[i] = tgt{blank: true}
				continue
			}
			if x.Tok == token.DEFINE {
				if _, isDef := fc.pkg.TypesInfo.Defs[id]; isDef && fc.pkg.TypesInfo.Defs[id] != nil {
					tgts[i] = tgt{decl: id}
					continue
				}
			}
		}
		tgts[i] = tgt{l: fc.lvalue(st, lh)}
	}
	for i, t := range tgts {
		switch {
		case t.blank:
		case t.decl != nil:
			fc.declare(st, t.decl, vals[i])
		default:
			fc.storeLoc(st, t.l, fc.nameVal(fc.coerce(st, vals[i], t.l.typ), "v"))
		}
	}
}

func (fc *FnCtx) arithSyn(st *State, op token.Token, a, b T, t types.Type, bits int, signed bool, be *ast.BinaryExpr, at ast.Expr) T {
	return fc.arith(st, op, a, b, t, bits, signed, posExpr{be, at.Pos()}, be.Y)
}

// posExpr gives a synthetic expression a real position (for messages).
type posExpr struct {
	*ast.BinaryExpr
	p token.Pos
}

func (p posExpr) Pos() token.Pos { return p.p }

func (fc *FnCtx) isPanicCall(c *ast.CallExpr) bool {
	id, ok := c.Fun.(*ast.Ident)
	if !ok || id.Name != "panic" {
		return false
	}
	_, isBuiltin := fc.pkg.TypesInfo.ObjectOf(id).(*types.Builtin)
	return isBuiltin
}

func (fc *FnCtx) execPanic(st *State, c *ast.CallExpr) {
	if fc.contract != nil && fc.contract.Panics {
		return
	}
	if fc.safetyActive() || fc.lenient && fc.panicsOwned() {
		fc.assert(st, "panic", "no-panic["+fc.src(c)+"]", tFalse, c.Pos(), "")
	}
}

func (fc *FnCtx) panicsOwned() bool { return false }

// ---------------------------------------------------------------------------
// switch

func (fc *FnCtx) execSwitch(st *State, x *ast.SwitchStmt, label string) *State {
	if x.Init != nil {
		st = fc.exec(st, x.Init, "")
	}
	var tag Val
	var tagT types.Type
	if x.Tag != nil {
		tag = fc.eval(st, x.Tag)
		tagT = fc.typeOf(x.Tag)
	}
	jt := &jumpTarget{label: label}
	fc.breakStk = append(fc.breakStk, jt)
	defer func() { fc.breakStk = fc.breakStk[:len(fc.breakStk)-1] }()
	var outs []*State
	cur := st
	var deflt *ast.CaseClause
	for _, cl := range x.Body.List {
		cc := cl.(*ast.CaseClause)
		if cc.List == nil {
			deflt = cc
			continue
		}
		if cur == nil {
			break
		}
		var hit []*State
		for _, ce := range cc.List {
			if cur == nil {
				break
			}
			var t, f *State
			if tag == nil {
				t, f = fc.branch(cur, ce)
			} else {
				cv := fc.eval(cur, ce)
				var c T
				if ts, ok := tag.(VStr); ok {
					c = fc.seqEq(ts, fc.toSeq(cur, cv))
				} else {
					_ = tagT
					c = valEq(tag, cv)
				}
				t, f = fc.split(cur, c)
			}
			if t != nil {
				hit = append(hit, t)
			}
			cur = f
		}
		if h := fc.mergeStates(hit); h != nil {
			outs = append(outs, fc.execCaseBody(h, cc.Body))
		}
	}
	if cur != nil {
		if deflt != nil {
			outs = append(outs, fc.execCaseBody(cur, deflt.Body))
		} else {
			outs = append(outs, cur)
		}
	}
	outs = append(outs, jt.breaks...)
	return fc.mergeStates(outs)
}

func (fc *FnCtx) execCaseBody(st *State, body []ast.Stmt) *State {
	for _, s := range body {
		if b, ok := s.(*ast.BranchStmt); ok && b.Tok == token.FALLTHROUGH {
			panic(unsupported("fallthrough"))
		}
	}
	return fc.execBlock(st, body)
}

func (fc *FnCtx) execTypeSwitch(st *State, x *ast.TypeSwitchStmt, label string) *State {
	if !fc.lenient {
		panic(unsupported("type switch @" + fc.pos(x.Pos())))
	}
	if x.Init != nil {
		st = fc.exec(st, x.Init, "")
	}
	// evaluate the operand
	switch a := x.Assign.(type) {
	case *ast.ExprStmt:
		fc.eval(st, a.X.(*ast.TypeAssertExpr).X)
	case *ast.AssignStmt:
		fc.eval(st, a.Rhs[0].(*ast.TypeAssertExpr).X)
	}
	jt := &jumpTarget{label: label}
	fc.breakStk = append(fc.breakStk, jt)
	defer func() { fc.breakStk = fc.breakStk[:len(fc.breakStk)-1] }()
	var outs []*State
	hasDefault := false
	for _, cl := range x.Body.List {
		cc := cl.(*ast.CaseClause)
		if cc.List == nil {
			hasDefault = true
		}
		t := st.clone()
		t.pc = fc.definePC(and(st.pc, fc.fresh("tsw", SBool)))
		if obj := fc.pkg.TypesInfo.Implicits[cc]; obj != nil {
			t.vars[obj] = fc.freshVal(obj.Type(), obj.Name())
		}
		outs = append(outs, fc.execBlock(t, cc.Body))
	}
	if !hasDefault {
		outs = append(outs, st)
	}
	outs = append(outs, jt.breaks...)
	return fc.mergeStates(outs)
}

func (fc *FnCtx) execSelect(st *State, x *ast.SelectStmt, label string) *State {
	if !fc.lenient {
		panic(unsupported("select @" + fc.pos(x.Pos())))
	}
	jt := &jumpTarget{label: label}
	fc.breakStk = append(fc.breakStk, jt)
	defer func() { fc.breakStk = fc.breakStk[:len(fc.breakStk)-1] }()
	var outs []*State
	for _, cl := range x.Body.List {
		cc := cl.(*ast.CommClause)
		t := st.clone()
		t.pc = fc.definePC(and(st.pc, fc.fresh("sel", SBool)))
		if cc.Comm != nil {
			t = fc.exec(t, cc.Comm, "")
		}
		outs = append(outs, fc.execBlock(t, cc.Body))
	}
	outs = append(outs, jt.breaks...)
	return fc.mergeStates(outs)
}

// ---------------------------------------------------------------------------
// loops

type loopInfo struct {
	ord  int
	spec *LoopSpec
}

func (fc *FnCtx) loopSpec(n ast.Node) loopInfo {
	ord := fc.loopOrd[n]
	li := loopInfo{ord: ord}
	if fc.contract != nil {
		li.spec = fc.contract.Loops[ord]
	}
	return li
}

// modifiedIn collects the variables assigned (and whether the heap / objects may be written) in nodes.
type modSet struct {
	vars         map[types.Object]bool
	heap         bool
	objs         bool // any object field written or unknown call made
	calls        bool
	wslices      map[types.Object]bool // slice variables written through
	unknownWrite bool
	nonIdx       map[types.Object]bool // written through by append/copy (not only by index)
	foreign      map[types.Object]bool // slice variables assigned from something other than themselves
	paths        []string              // selector paths assigned in the loop (or listed under on-call modifies)
	ghostsAll    bool
	cells        bool            // cells of a cell-encoded struct slice may be written
	objsUnknown  bool            // an object is written through something other than a plain field path
	ghosts       map[string]bool // ghost variables assigned by on-call effects / nested iter resets inside the nodes
	node         ast.Node
}

func (fc *FnCtx) modified(nodes ...ast.Node) *modSet {
	ms := &modSet{vars: map[types.Object]bool{}, wslices: map[types.Object]bool{}, nonIdx: map[types.Object]bool{}, foreign: map[types.Object]bool{}}
	if fc.contract != nil {
		ms.paths = fc.assignedPaths(nodes...)
		for _, n := range nodes {
			if n != nil {
				ms.node = n
				break
			}
		}
	}
	var markLhs func(e ast.Expr)
	rootVar := func(e ast.Expr) types.Object {
		for {
			switch x := e.(type) {
			case *ast.ParenExpr:
				e = x.X
				continue
			case *ast.SliceExpr:
				e = x.X
				continue
			case *ast.Ident:
				return fc.pkg.TypesInfo.ObjectOf(x)
			}
			return nil
		}
	}
	markLhs = func(e ast.Expr) {
		switch x := e.(type) {
		case *ast.ParenExpr:
			markLhs(x.X)
		case *ast.Ident:
			if o := fc.pkg.TypesInfo.ObjectOf(x); o != nil {
				ms.vars[o] = true
			}
		case *ast.SelectorExpr:
			ms.objs = true
			// struct-valued local: x.f = v modifies x
			var root ast.Expr = x
			for {
				if s, ok := root.(*ast.SelectorExpr); ok {
					root = s.X
					continue
				}
				if p, ok := root.(*ast.ParenExpr); ok {
					root = p.X
					continue
				}
				if ix, ok := root.(*ast.IndexExpr); ok {
					if sl, ok := fc.typeOf(ix.X).Underlying().(*types.Slice); ok && isCellType(sl.Elem()) {
						ms.cells = true
						return
					}
					root = ix.X
					ms.heap = true
					ms.objsUnknown = true
					continue
				}
				break
			}
			if _, ok := root.(*ast.Ident); !ok {
				ms.objsUnknown = true // written through something that is not a plain field path
			}
			if id, ok := root.(*ast.Ident); ok {
				// kv := &s[i]; kv.f = v  with s a slice of cell-encoded structs
				if pt, ok := fc.typeOf(id).Underlying().(*types.Pointer); ok && isCellType(pt.Elem()) {
					ms.cells = true
				}
			}
			if id, ok := root.(*ast.Ident); ok {
				if o := fc.pkg.TypesInfo.ObjectOf(id); o != nil {
					// p.f = v through a pointer variable changes the object, not the variable
					if _, isPtr := o.Type().Underlying().(*types.Pointer); !isPtr {
						ms.vars[o] = true
					}
				}
			}
		case *ast.IndexExpr:
			if sl, ok := fc.typeOf(x.X).Underlying().(*types.Slice); ok {
				if isCellType(sl.Elem()) {
					ms.cells = true
					return
				}
				ms.heap = true
				if o := rootVar(x.X); o != nil {
					ms.wslices[o] = true
				} else {
					ms.unknownWrite = true
				}
			} else if isIntMap(fc.typeOf(x.X)) {
				ms.cells = true // m[k] = v: the entries of an integer map live in the cell heap
			} else {
				markLhs(x.X)
			}
		case *ast.StarExpr:
			if pt, ok := fc.typeOf(x.X).Underlying().(*types.Pointer); ok && isCellType(pt.Elem()) {
				ms.cells = true
				return
			}
			ms.objs = true
			ms.objsUnknown = true
			// *p = v writes byte cells only when p points at a byte; a slice header or a struct lives in an object
			if pt, ok := fc.typeOf(x.X).Underlying().(*types.Pointer); !ok || isByteElem(pt.Elem()) {
				ms.heap = true
				ms.unknownWrite = true
			}
		}
	}
	for _, n := range nodes {
		if n == nil {
			continue
		}
		ast.Inspect(n, func(m ast.Node) bool {
			switch x := m.(type) {
			case *ast.AssignStmt:
				for _, l := range x.Lhs {
					markLhs(l)
				}
				// x = append(x, ...) / x = x[a:b] keep x inside (or freshly outside) its own backing array;
				// any other assignment to a slice variable may make it point anywhere
				for i, l := range x.Lhs {
					id, ok := l.(*ast.Ident)
					if !ok {
						continue
					}
					o := fc.pkg.TypesInfo.ObjectOf(id)
					if o == nil {
						continue
					}
					if _, isSlice := o.Type().Underlying().(*types.Slice); !isSlice {
						continue
					}
					self := false
					if len(x.Rhs) == len(x.Lhs) {
						r := unparen(x.Rhs[i])
						if c, ok := r.(*ast.CallExpr); ok {
							if fid, ok := c.Fun.(*ast.Ident); ok && fid.Name == "append" && len(c.Args) > 0 && rootVar(c.Args[0]) == o {
								self = true
							}
						} else if rootVar(r) == o {
							self = true
						}
					}
					if !self {
						ms.foreign[o] = true
					}
				}
			case *ast.IncDecStmt:
				markLhs(x.X)
			case *ast.ForStmt:
				fc.noteNestedIter(ms, x)
			case *ast.RangeStmt:
				fc.noteNestedIter(ms, x)
				if x.Key != nil {
					markLhs(x.Key)
				}
				if x.Value != nil {
					markLhs(x.Value)
				}
			case *ast.UnaryExpr:
				if x.Op == token.AND {
					// address taken inside the loop: the variable may change through the pointer
					if id, ok := x.X.(*ast.Ident); ok {
						if o := fc.pkg.TypesInfo.ObjectOf(id); o != nil {
							ms.vars[o] = true
						}
					}
				}
			case *ast.CallExpr:
				if id, ok := x.Fun.(*ast.Ident); ok {
					if _, isB := fc.pkg.TypesInfo.ObjectOf(id).(*types.Builtin); isB {
						switch id.Name {
						case "append":
							if sl, ok := fc.typeOf(x.Args[0]).Underlying().(*types.Slice); ok && isCellType(sl.Elem()) {
								ms.cells = true
								return true
							}
							ms.heap = true
							if o := rootVar(x.Args[0]); o != nil {
								ms.wslices[o] = true
								ms.nonIdx[o] = true
							} else {
								ms.unknownWrite = true
							}
						case "copy":
							if sl, ok := fc.typeOf(x.Args[0]).Underlying().(*types.Slice); ok && isCellType(sl.Elem()) {
								ms.cells = true
								return true
							}
							ms.heap = true
							if o := rootVar(x.Args[0]); o != nil {
								ms.wslices[o] = true
								ms.nonIdx[o] = true
							} else {
								ms.unknownWrite = true
							}
						case "len", "cap", "min", "max", "panic":
						case "delete", "clear":
							ms.cells = true // entries of an integer map live in the cell heap
							ms.heap = true
							ms.unknownWrite = true
						default:
							ms.heap = true
							ms.unknownWrite = true
						}
						return true
					}
				}
				if tv, ok := fc.pkg.TypesInfo.Types[x.Fun]; ok && tv.IsType() {
					return true // conversion
				}
				fc.noteGhostEffects(ms, x)
				eff := fc.eng.callEffects(fc, x)
				if eff.heap {
					ms.heap = true
					ms.unknownWrite = true
					ms.cells = true
				}
				if eff.objs {
					ms.objs = true
				}
				if eff.heap || eff.objs {
					ms.calls = true // a call without effects (pure contract) changes nothing
				}
			case *ast.FuncLit:
				// assignments inside closures count too (they may run during the loop)
			}
			return true
		})
	}
	return ms
}

// noteNestedIter: iter resets of a nested loop assign their ghosts.
func (fc *FnCtx) noteNestedIter(ms *modSet, n ast.Node) {
	if fc.contract == nil {
		return
	}
	if ls := fc.contract.Loops[fc.loopOrd[n]]; ls != nil {
		for _, ef := range ls.Iter {
			ms.noteGhost(ef.Target)
		}
	}
}

func (ms *modSet) noteGhost(name string) {
	if ms.ghosts == nil {
		ms.ghosts = map[string]bool{}
	}
	ms.ghosts[name] = true
}

// noteGhostEffects records the ghost variables the on-call contract of call x assigns.
func (fc *FnCtx) noteGhostEffects(ms *modSet, x *ast.CallExpr) {
	if fc.contract == nil {
		return
	}
	defer func() {
		if r := recover(); r != nil {
			ms.ghostsAll = true
		}
	}()
	fc.staticRecvName = ""
	name, pkgPath, _, _, kind := fc.calleeInfo(x)
	var oc *OnCall
	if fc.staticRecvName != "" {
		oc = fc.findOnCall(fc.staticRecvName, pkgPath, kind, false, x)
	}
	if oc == nil {
		oc = fc.findOnCall(name, pkgPath, kind, false, x)
	}
	if oc == nil {
		return // effects fire only at call sites inside this body; a callee cannot reach them
	}
	for _, ef := range oc.Effects {
		ms.noteGhost(ef.Target)
	}
}

// havocForLoop replaces everything the loop may modify by fresh unknowns.
func (fc *FnCtx) havocForLoop(st *State, ms *modSet, entry *State) {
	for o := range ms.vars {
		v, ok := o.(*types.Var)
		if !ok {
			continue
		}
		if _, had := st.vars[v]; had {
			st.vars[v] = fc.freshVal(v.Type(), v.Name())
		} else if b, ok := st.ghost[boxKey(v)]; ok {
			st.objs[fc.objIndex(b)] = fc.freshVal(v.Type(), v.Name())
		}
	}
	// a path whose root variable is itself assigned in the loop may denote another object by the time it is written
	rootAssigned := false
	for _, p := range ms.paths {
		root := p
		if k := strings.IndexByte(p, '.'); k >= 0 {
			root = p[:k]
		}
		for o := range ms.vars {
			if o.Name() == root {
				rootAssigned = true
			}
		}
	}
	if ms.calls || ms.objsUnknown || rootAssigned || (ms.objs && !fc.lenient) {
		fc.havocObjects(st, ms.calls)
		// stable fields survive calls, but not assignments made by the loop itself
		for _, p := range ms.paths {
			if fc.isStable(p) {
				fc.havocPath(st, p, ms.node)
			}
		}
	} else if ms.objs {
		// only plain field paths are assigned and no call can touch an object: forget exactly those fields
		for _, p := range ms.paths {
			fc.havocPath(st, p, ms.node)
		}
	}
	if ms.cells {
		// cells written in the loop: the loop invariants have to say what is kept
		st.cheap = fc.fresh("C", SHeap)
	}
	if ms.heap {
		old := st.heap
		oldNext := st.nextR
		st.heap = fc.fresh("H", SHeap)
		st.nextR = fc.fresh("nextR", SInt)
		fc.axiom(le(oldNext, st.nextR))
		fc.reassertConstRegions(st)
		// frame: regions existing at loop entry and not written through stay unchanged
		if !ms.unknownWrite {
			var excl []T
			var wins []heapWindow
			ok := true
			for o := range ms.wslices {
				v, isVar := o.(*types.Var)
				if !isVar {
					ok = false
					break
				}
				ev, had := entry.vars[v]
				if !had {
					// declared inside the loop: derived from something else; give up the frame unless it is fresh
					ok = false
					break
				}
				if sv, isS := ev.(VSlice); isS {
					if !ms.nonIdx[o] && !ms.vars[o] {
						// written only by index through a slice variable the loop never reassigns:
						// every write lands inside its window (bounds obligation), the rest of the region is untouched
						wins = append(wins, heapWindow{sv.Rgn, sv.Off, fc.define(add(sv.Off, sv.Len), "whi")})
					} else if !ms.foreign[o] {
						// only re-sliced or appended to itself: writes into the entry backing array stay inside its
						// capacity window (an append that does not fit moves to a new backing array)
						wins = append(wins, heapWindow{sv.Rgn, sv.Off, fc.define(add(sv.Off, sv.Cap), "whi")})
					} else {
						excl = append(excl, sv.Rgn)
					}
				} else {
					ok = false
					break
				}
			}
			if ok {
				fc.nfr++
				r := T{fmt.Sprintf("r!%d", fc.nfr), SInt}
				conds := []T{lt(r, oldNext)}
				for _, e := range excl {
					conds = append(conds, neq(r, e))
				}
				for _, w := range wins {
					conds = append(conds, neq(r, w.rgn))
				}
				fc.assume(st, forallInt(r.S, implies(and(conds...), eq(sel(st.heap, r), sel(old, r))), sel(st.heap, r)))
				if len(wins) > 0 {
					fc.assume(st, fc.unchangedOutside(old, st.heap, oldNext, excl, wins))
				}
			}
		}
	}
	// ghost variables may be changed by effects in the loop: havoc those assigned by on-call effects
	// (also when the calls in the loop are otherwise effect-free: `nohavoc` on-calls still run their ghost effects)
	if fc.contract != nil {
		for _, g := range fc.contract.Ghosts {
			if fc.ghostMayChange(g.Name) && (ms.ghostsAll || ms.ghosts[g.Name]) {
				st.ghost[g.Name] = fc.freshGhost(g)
			}
		}
	}
}

func (fc *FnCtx) ghostMayChange(name string) bool {
	for _, l := range fc.contract.Loops {
		for _, ef := range l.Iter {
			if ef.Target == name {
				return true
			}
		}
	}
	for _, oc := range fc.contract.OnCalls {
		for _, ef := range oc.Effects {
			if ef.Target == name {
				return true
			}
		}
	}
	return false
}

func (fc *FnCtx) freshGhost(g GhostDecl) Val {
	switch g.Type {
	case "bool":
		return VBool{fc.fresh("g_"+g.Name, SBool)}
	default:
		return VInt{fc.fresh("g_"+g.Name, SInt)}
	}
}

// havocObjects forgets the contents of all objects except fields declared stable.
func (fc *FnCtx) havocObjects(st *State, all bool) {
	boxes := map[int]bool{}
	for k, v := range st.ghost {
		if strings.HasPrefix(k, "boxed:") {
			boxes[fc.objIndex(v)] = true
		}
	}
	for id, v := range st.objs {
		if boxes[id] {
			continue // a boxed local: changed only by calls that receive its address (havocBoxedArgs)
		}
		st.objs[id] = fc.havocKeepStable(v, fmt.Sprintf("o%d", id), fc.objStablePrefix(st, id))
	}
	for k := range st.ghost {
		if len(k) > 7 && k[:7] == "global:" {
			delete(st.ghost, k)
		}
	}
}

// objStablePrefix finds the contract-visible name of an object (receiver/param name) for `stable` matching.
func (fc *FnCtx) objStablePrefix(st *State, id int) []string {
	if fc.contract == nil || len(fc.contract.Stable) == 0 {
		return nil
	}
	var names []string
	for name, v := range fc.entryVars {
		if p, ok := v.(VPtr); ok && p.Obj == id {
			names = append(names, name)
		}
	}
	// locals that point to the object (e.g. ctx := s.acquireCtx(c))
	for o, v := range st.vars {
		if p, ok := v.(VPtr); ok {
			pid := p.Obj
			if pid < 0 {
				if ov, ok := st.ghost["ptr:"+p.ID.S]; ok {
					pid = fc.objIndex(ov)
				}
			}
			if pid == id {
				names = append(names, o.Name())
			}
		}
	}
	return names
}

func (fc *FnCtx) havocKeepStable(v Val, hint string, prefixes []string) Val {
	sv, ok := v.(VStruct)
	if !ok {
		return fc.havocLike(v, hint)
	}
	nf := map[string]Val{}
	for k, f := range sv.F {
		keep, under := false, false
		var sub []string
		for _, prefix := range prefixes {
			p := prefix + "." + k
			if fc.isStable(p) {
				keep = true
			}
			if fc.hasStableUnder(p) {
				under = true
			}
			sub = append(sub, p)
		}
		if keep {
			nf[k] = f
			continue
		}
		if fsv, ok := f.(VStruct); ok && under {
			nf[k] = fc.havocKeepStable(fsv, hint+"."+k, sub)
			continue
		}
		// dropped: re-materialised lazily as unknown
	}
	return VStruct{sv.Typ, nf}
}

// havocPath forgets one field path such as "ctx.hijackHandler" (root = a variable visible at pos).
func (fc *FnCtx) havocPath(st *State, path string, at ast.Node) {
	e, err := parseSpecExpr(path)
	if err != nil {
		panic(unsupported("modifies path " + path))
	}
	fc.curScopeNode = at
	cur, l, ok := fc.specLocScoped(st, e, at)
	if !ok || l == nil {
		return // nothing materialised under that path: already unknown
	}
	fc.storeLoc(st, *l, fc.havocLike(cur, "mod"))
}

func (fc *FnCtx) isStable(path string) bool {
	if fc.contract == nil {
		return false
	}
	for _, s := range fc.contract.Stable {
		if s == path {
			return true
		}
	}
	return false
}

func (fc *FnCtx) hasStableUnder(path string) bool {
	if fc.contract == nil {
		return false
	}
	for _, s := range fc.contract.Stable {
		if len(s) > len(path) && s[:len(path)+1] == path+"." {
			return true
		}
	}
	return false
}

func (fc *FnCtx) havocLike(v Val, hint string) Val {
	switch x := v.(type) {
	case VInt:
		return VInt{fc.fresh(hint, SInt)}
	case VBool:
		return VBool{fc.fresh(hint, SBool)}
	case VStruct:
		return VStruct{x.Typ, map[string]Val{}}
	case VSlice:
		return fc.freshVal(types.NewSlice(x.Elem), hint)
	case VPtr:
		return fc.freshVal(types.NewPointer(x.Elem), hint)
	case VOpaque:
		id := fc.fresh(hint, SInt)
		fc.axiom(le(mkInt(0), id))
		return VOpaque{id, x.Typ}
	case VStr:
		return fc.freshVal(types.Typ[types.String], hint)
	}
	return v
}

func (fc *FnCtx) clauseActive(c *Clause) bool {
	if fc.prop == "" {
		return true
	}
	ps := c.Props
	if len(ps) == 0 && fc.contract != nil {
		ps = fc.contract.Props
	}
	for _, p := range ps {
		if p == fc.prop {
			return true
		}
	}
	return false
}

func clauseName(prefix string, c *Clause, k int) string {
	if c.Label != "" {
		return fmt.Sprintf("%s[%s]", prefix, c.Label)
	}
	return fmt.Sprintf("%s[%d]", prefix, k+1)
}

// checkInvariants asserts (or assumes) the loop invariants in st.
func (fc *FnCtx) loopInvariants(st *State, li loopInfo, at ast.Node, phase string, assert bool) {
	if li.spec == nil || st == nil {
		return
	}
	for k, c := range li.spec.Invariants {
		env := &specEnv{fc: fc, st: st, old: fc.entry, at: at.Pos(), scopeNode: at}
		t := fc.specBool(st, c.Expr, env)
		if !fc.clauseActive(c) {
			// an invariant owned by another property of this function is relied upon at the loop head only
			// (it is proved in that property's own run); it is never assumed in the middle of a path
			if !assert {
				fc.assume(st, t)
				fc.relied[clauseOwners(fc, c)] = true
			}
			continue
		}
		if assert {
			fc.curEnv = env
			fc.assert(st, "invariant-"+phase, clauseName(fmt.Sprintf("loop%d.inv", li.ord), c, k)+"."+phase, t, at.Pos(), c.Src)
			fc.curEnv = nil
		} else {
			fc.assume(st, t)
		}
	}
}

func (fc *FnCtx) execFor(st *State, x *ast.ForStmt, label string) *State {
	if x.Init != nil {
		st = fc.exec(st, x.Init, "")
	}
	return fc.loopCore(st, x, label, x.Cond, x.Body, x.Post, nil)
}

// loopCore cuts the loop at its head.
func (fc *FnCtx) loopCore(st *State, node ast.Node, label string, cond ast.Expr, body *ast.BlockStmt, post ast.Stmt,
	pre func(*State) *State) *State {
	li := fc.loopSpec(node)
	var condNode ast.Node
	if cond != nil {
		condNode = cond
	}
	var postNode ast.Node
	if post != nil {
		postNode = post
	}
	ms := fc.modified(body, condNode, postNode)
	if rs, ok := node.(*ast.RangeStmt); ok {
		// key/value variables of range loops are assigned by the loop
		for _, e := range []ast.Expr{rs.Key, rs.Value} {
			if id, ok := e.(*ast.Ident); ok && id.Name != "_" {
				if o := fc.pkg.TypesInfo.ObjectOf(id); o != nil {
					ms.vars[o] = true
				}
			}
		}
	}
	if li.spec != nil {
		for _, ef := range li.spec.Iter {
			ms.noteGhost(ef.Target)
		}
	}
	entry := st.clone()
	// 1. invariants hold on entry
	fc.loopInvariants(st, li, node, "entry", true)
	// 2. havoc + assume invariants
	head := st.clone()
	fc.havocForLoop(head, ms, entry)
	fc.loopInvariants(head, li, node, "assumed", false)
	var v0 T
	jt := &jumpTarget{label: label, isLoop: true}
	fc.breakStk = append(fc.breakStk, jt)
	// 3. condition
	headSt := head.clone()
	var bodySt, exitSt *State
	if cond != nil {
		bodySt, exitSt = fc.branch(head, cond)
	} else {
		bodySt = head
	}
	if bodySt != nil {
		if pre != nil {
			bodySt = pre(bodySt)
		}
		fc.iterResets(bodySt, li, node)
		fc.canary(bodySt, fmt.Sprintf("canary.loop%d.body", li.ord), node.Pos())
		if li.spec != nil && li.spec.Decreases != nil && fc.terminationActive() {
			// the variant is sampled at the loop head, before the condition is evaluated: a condition with a side effect
			// (for scanner.next() { ... }) may be what makes progress
			v0 = fc.define(asInt(fc.specVal(headSt, li.spec.Decreases, &specEnv{fc: fc, st: headSt, old: fc.entry, at: node.Pos(), scopeNode: node})), "variant")
			fc.assert(bodySt, "decreases", fmt.Sprintf("loop%d.decreases.bounded", li.ord), le(mkInt(0), v0), node.Pos(), li.spec.DecSrc)
		}
		fc.inLoopBody++
		end := fc.execBlock(bodySt, body.List)
		fc.inLoopBody--
		ends := append([]*State{end}, jt.continues...)
		back := fc.mergeStates(ends)
		if back != nil && post != nil {
			back = fc.exec(back, post, "")
		}
		if back != nil {
			fc.loopAtEnd(back, li, node)
			fc.loopInvariants(back, li, node, "preserved", true)
			if li.spec != nil && li.spec.Decreases != nil && fc.terminationActive() {
				v1 := asInt(fc.specVal(back, li.spec.Decreases, &specEnv{fc: fc, st: back, old: fc.entry, at: node.Pos(), scopeNode: node}))
				fc.assert(back, "decreases", fmt.Sprintf("loop%d.decreases.strict", li.ord), lt(v1, v0), node.Pos(), li.spec.DecSrc)
			}
		}
	}
	fc.breakStk = fc.breakStk[:len(fc.breakStk)-1]
	outs := append([]*State{exitSt}, jt.breaks...)
	return fc.mergeStates(outs)
}

func (fc *FnCtx) terminationActive() bool {
	return !(fc.contract != nil && fc.contract.NoTerm) && fc.safetyActive()
}

func (fc *FnCtx) execRange(st *State, x *ast.RangeStmt, label string) *State {
	xt := fc.typeOf(x.X)
	// hidden index variable
	idxObj := types.NewVar(x.Pos(), fc.pkg.Types, fmt.Sprintf("range%d!i", fc.loopOrd[x]), types.Typ[types.Int])
	var keyObj, valObj *types.Var
	getObj := func(e ast.Expr) *types.Var {
		id, ok := e.(*ast.Ident)
		if !ok || id.Name == "_" {
			return nil
		}
		if o, ok := fc.pkg.TypesInfo.ObjectOf(id).(*types.Var); ok {
			return o
		}
		return nil
	}
	if x.Key != nil {
		keyObj = getObj(x.Key)
	}
	if x.Value != nil {
		valObj = getObj(x.Value)
	}
	switch u := xt.Underlying().(type) {
	case *types.Slice, *types.Basic:
		var n T
		var rv Val
		if b, isB := u.(*types.Basic); isB {
			if b.Info()&types.IsInteger != 0 {
				n = asInt(fc.eval(st, x.X))
			} else if b.Info()&types.IsString != 0 {
				rv = fc.eval(st, x.X)
				if valObj != nil || !fc.lenient {
					// rune iteration over strings is not byte iteration
					if !fc.lenient {
						panic(unsupported("range over string (runes) @" + fc.pos(x.Pos())))
					}
				}
				n = rv.(VStr).Len
			} else {
				panic(unsupported("range over " + xt.String()))
			}
		} else {
			rv = fc.eval(st, x.X)
			n = rv.(VSlice).Len
		}
		// the loop runs with the hidden index; key variable mirrors it
		if keyObj != nil && x.Tok == token.ASSIGN {
			// existing variable is assigned
		}
		if x.Tok == token.ASSIGN && (keyObj != nil || valObj != nil) && !fc.lenient {
			panic(unsupported("range with '=' assignment to existing variables @" + fc.pos(x.Pos())))
		}
		st.vars[idxObj] = VInt{mkInt(0)}
		cond := func(s *State) T { return lt(asInt(s.vars[idxObj]), n) }
		pre := func(s *State) *State {
			i := asInt(s.vars[idxObj])
			if keyObj != nil {
				s.vars[keyObj] = VInt{i}
			}
			if valObj != nil {
				switch r := rv.(type) {
				case VSlice:
					s.vars[valObj] = fc.readElem(s, r, i)
				case VStr:
					s.vars[valObj] = fc.freshVal(valObj.Type(), "rune")
				}
			}
			return s
		}
		return fc.rangeLoop(st, x, label, idxObj, keyObj, cond, n, pre)
	case *types.Array:
		return fc.rangeOpaque(st, x, label, keyObj, valObj)
	case *types.Pointer, *types.Map, *types.Chan, *types.Signature:
		return fc.rangeOpaque(st, x, label, keyObj, valObj)
	}
	panic(unsupported("range over " + xt.String()))
}

// rangeLoop: for idx := 0; idx < n; idx++ { pre; body }
func (fc *FnCtx) rangeLoop(st *State, x *ast.RangeStmt, label string, idxObj, keyObj *types.Var, cond func(*State) T, n T, pre func(*State) *State) *State {
	li := fc.loopSpec(x)
	fc.rangeIdx = append(fc.rangeIdx, idxObj)
	defer func() { fc.rangeIdx = fc.rangeIdx[:len(fc.rangeIdx)-1] }()
	if keyObj != nil {
		st.vars[keyObj] = VInt{mkInt(0)} // in invariants the key names the index of the next iteration
	}
	ms := fc.modified(x.Body)
	ms.vars[idxObj] = true
	for _, e := range []ast.Expr{x.Key, x.Value} {
		if id, ok := e.(*ast.Ident); ok && id.Name != "_" {
			if o := fc.pkg.TypesInfo.ObjectOf(id); o != nil {
				ms.vars[o] = true
			}
		}
	}
	entry := st.clone()
	fc.loopInvariants(st, li, x, "entry", true)
	head := st.clone()
	fc.havocForLoop(head, ms, entry)
	// automatic invariant of range loops: 0 <= idx <= n
	i := asInt(head.vars[idxObj])
	if keyObj != nil {
		head.vars[keyObj] = VInt{i}
	}
	fc.assume(head, and(le(mkInt(0), i), le(i, n)))
	fc.loopInvariants(head, li, x, "assumed", false)
	jt := &jumpTarget{label: label, isLoop: true}
	fc.breakStk = append(fc.breakStk, jt)
	bodySt, exitSt := fc.split(head, cond(head))
	if bodySt != nil {
		bodySt = pre(bodySt)
		fc.iterResets(bodySt, li, x)
		fc.canary(bodySt, fmt.Sprintf("canary.loop%d.body", li.ord), x.Pos())
		fc.inLoopBody++
		end := fc.execBlock(bodySt, x.Body.List)
		fc.inLoopBody--
		back := fc.mergeStates(append([]*State{end}, jt.continues...))
		if back != nil {
			back.vars[idxObj] = VInt{fc.define(add(asInt(back.vars[idxObj]), mkInt(1)), "i")}
			if keyObj != nil {
				back.vars[keyObj] = back.vars[idxObj]
			}
			// key variable visible in invariants follows the index at the head
			fc.loopAtEnd(back, li, x)
			fc.loopInvariants(back, li, x, "preserved", true)
		}
	}
	fc.breakStk = fc.breakStk[:len(fc.breakStk)-1]
	return fc.mergeStates(append([]*State{exitSt}, jt.breaks...))
}

// rangeOpaque: range over map/chan/func/array: body runs an unknown number of times with unknown key/value.
func (fc *FnCtx) rangeOpaque(st *State, x *ast.RangeStmt, label string, keyObj, valObj *types.Var) *State {
	if !fc.lenient {
		if _, isArr := fc.typeOf(x.X).Underlying().(*types.Array); !isArr {
			panic(unsupported("range over " + fc.typeOf(x.X).String() + " @" + fc.pos(x.Pos())))
		}
	}
	fc.eval(st, x.X)
	li := fc.loopSpec(x)
	ms := fc.modified(x.Body)
	entry := st.clone()
	fc.loopInvariants(st, li, x, "entry", true)
	head := st.clone()
	fc.havocForLoop(head, ms, entry)
	fc.loopInvariants(head, li, x, "assumed", false)
	jt := &jumpTarget{label: label, isLoop: true}
	fc.breakStk = append(fc.breakStk, jt)
	bodySt, exitSt := fc.split(head, fc.fresh("more", SBool))
	if keyObj != nil {
		bodySt.vars[keyObj] = fc.freshVal(keyObj.Type(), keyObj.Name())
	}
	if valObj != nil {
		bodySt.vars[valObj] = fc.freshVal(valObj.Type(), valObj.Name())
	}
	fc.iterResets(bodySt, li, x)
	fc.canary(bodySt, fmt.Sprintf("canary.loop%d.body", li.ord), x.Pos())
	fc.inLoopBody++
	end := fc.execBlock(bodySt, x.Body.List)
	fc.inLoopBody--
	back := fc.mergeStates(append([]*State{end}, jt.continues...))
	if back != nil {
		fc.loopAtEnd(back, li, x)
		fc.loopInvariants(back, li, x, "preserved", true)
	}
	fc.breakStk = fc.breakStk[:len(fc.breakStk)-1]
	return fc.mergeStates(append([]*State{exitSt}, jt.breaks...))
}
