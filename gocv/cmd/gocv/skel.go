package main

import (
	"fmt"
	"go/ast"
)

// iterResets performs the `iter` ghost updates of a loop contract at the start of an iteration.
func (fc *FnCtx) iterResets(st *State, li loopInfo, node ast.Node) {
	if li.spec == nil || st == nil {
		return
	}
	type upd struct {
		name string
		v    Val
	}
	var upds []upd
	for _, ef := range li.spec.Iter {
		cur, ok := st.ghost[ef.Target]
		if !ok {
			panic(unsupported("iter on undeclared ghost " + ef.Target))
		}
		if ef.Expr == nil {
			upds = append(upds, upd{ef.Target, fc.havocLike(cur, "g_"+ef.Target)})
			continue
		}
		upds = append(upds, upd{ef.Target, fc.specVal(st, ef.Expr, &specEnv{fc: fc, st: st, old: fc.entry, at: node.Pos(), scopeNode: node})})
	}
	for _, u := range upds {
		st.ghost[u.name] = u.v
	}
}

// loopAtEnd asserts the `atend` clauses of a loop contract at the back edge.
func (fc *FnCtx) loopAtEnd(st *State, li loopInfo, node ast.Node) {
	if li.spec == nil || st == nil {
		return
	}
	for k, c := range li.spec.AtEnd {
		if !fc.clauseActive(c) {
			continue
		}
		// an end-of-iteration clause may mention variables declared in the loop body: resolve names at the closing brace
		env := &specEnv{fc: fc, st: st, old: fc.entry, at: node.Pos(), scopeNode: node}
		switch x := node.(type) {
		case *ast.ForStmt:
			env = &specEnv{fc: fc, st: st, old: fc.entry, at: x.Body.Rbrace}
		case *ast.RangeStmt:
			env = &specEnv{fc: fc, st: st, old: fc.entry, at: x.Body.Rbrace}
		}
		t := fc.specBool(st, c.Expr, env)
		fc.curEnv = env
		fc.assert(st, "atend", clauseName(fmt.Sprintf("loop%d.atend", li.ord), c, k), t, node.Pos(), c.Src)
		fc.curEnv = nil
	}
}

// outDir is where evidence and replay files go (defaults to the verif root; the must-fail corpus redirects it).
func (r *Runner) outDir() string {
	if r.out != "" {
		return r.out
	}
	return r.verif
}

// clauseOwners names the properties that own (and therefore prove) a clause.
func clauseOwners(fc *FnCtx, c *Clause) string {
	ps := c.Props
	if len(ps) == 0 && fc.contract != nil {
		ps = fc.contract.Props
	}
	s := ""
	for i, p := range ps {
		if i > 0 {
			s += ","
		}
		s += p
	}
	return s
}

// maintainCheck: after every statement of a body under `maintain` clauses (at any nesting depth) each clause is
// proved from what is known so far and then kept as a fact -- a running invariant of loop-free code. Nothing is
// forgotten; the clause only hands the solver the intermediate step.
func (fc *FnCtx) maintainCheck(st *State, at ast.Stmt) {
	if st == nil || fc.contract == nil || len(fc.contract.Maintain) == 0 || (len(fc.curFn) > 0 && fc.curFn[len(fc.curFn)-1].inlined) {
		return
	}
	switch at.(type) {
	case *ast.ReturnStmt, *ast.BranchStmt, *ast.DeclStmt, *ast.EmptyStmt:
		return
	}
	fc.maintainN++
	for k, c := range fc.contract.Maintain {
		env := &specEnv{fc: fc, st: st, old: fc.entry, at: at.End(), scopeNode: at}
		t := fc.specBool(st, c.Expr, env)
		if !fc.clauseActive(c) {
			continue
		}
		fc.curEnv = env
		fc.assert(st, "maintain", fmt.Sprintf("%s@%d", clauseName("maintain", c, k), fc.maintainN), t, at.Pos(), c.Src)
		fc.curEnv = nil
		fc.assume(st, t)
	}
}
