package main

import (
	"go/token"
	"go/types"
	"sort"
)

// verifyLemma proves the ensures clauses of a body-less lemma. A lemma may have universally quantified
// parameters, preconditions, and a straight-line "body" of calls to functions under contract (each call is
// replaced by the callee's contract, exactly as at a call site in real code). Bounded quantifiers with
// constant bounds are expanded into ground instances, so table lemmas are decided without quantifiers.
func (e *Engine) verifyLemma(ct *FuncContract, prop string) (res *FuncResult) {
	res = &FuncResult{Name: ct.Name, IntBits: e.intBits, Mode: "lemma"}
	pkg := e.pkgByPath[ct.Pkg]
	if pkg == nil {
		res.Unsupported = "contract-anchor: package " + ct.Pkg + " not loaded"
		return res
	}
	short := ct.Pkg
	for i := len(short) - 1; i >= 0; i-- {
		if short[i] == '/' {
			short = short[i+1:]
			break
		}
	}
	fc := &FnCtx{eng: e, pkg: pkg, contract: ct, prop: prop, name: short + "." + ct.Name,
		strConsts: map[string]T{}, constRgn: map[string]int{}, constRgnS: map[int]string{},
		specDecl: map[string]bool{}, oblNames: map[string]int{}, assumptions: map[string]bool{}, calleeUsed: map[string]bool{},
		addrTaken: map[types.Object]bool{}, entryVars: map[string]Val{}, fieldPtrs: map[string]loc{}, relied: map[string]bool{},
		intBits: e.intBits, expandQuant: true}
	defer func() {
		if r := recover(); r != nil {
			if u, ok := r.(unsupportedErr); ok {
				res.Unsupported = u.msg
				res.Obls = fc.obls
				return
			}
			panic(r)
		}
	}()
	st := &State{pc: tTrue, vars: map[types.Object]Val{}, ghost: map[string]Val{}, objs: map[int]Val{}, held: map[string]T{}}
	st.heap = fc.fresh("H0", SHeap)
	st.nextR = fc.fresh("nextR0", SInt)
	fc.axiom(lt(mkInt(0), st.nextR))
	bind := map[string]Val{}
	var leaves []T
	for _, p := range ct.LemmaParams {
		var v Val
		switch p.Type {
		case "seq":
			v = fc.freshVal(types.NewSlice(types.Typ[types.Uint8]), p.Name)
			leaves = append(leaves, v.(VSlice).Rgn)
			fc.axiom(lt(v.(VSlice).Rgn, st.nextR))
		case "bool":
			v = fc.freshVal(types.Typ[types.Bool], p.Name)
		case "byte":
			v = fc.freshVal(types.Typ[types.Uint8], p.Name)
		default:
			v = fc.freshVal(types.Typ[types.Int], p.Name)
		}
		bind[p.Name] = v
		fc.entryVars[p.Name] = v
	}
	if len(leaves) > 1 {
		var us []T
		for i, r := range leaves {
			us = append(us, ite(eq(r, mkInt(0)), mkInt(int64(-1000-i)), r))
		}
		fc.axiom(app(SBool, "distinct", us...))
	}
	fc.entry = st.clone()
	for _, cl := range ct.Requires {
		fc.assume(st, fc.specBool(st, cl.Expr, &specEnv{fc: fc, st: st, old: st, bind: bind}))
	}
	fc.entry = st.clone()
	fc.canary(st, "canary.entry", token.NoPos)
	for _, lc := range ct.Calls {
		fe := e.findFunc(ct.Pkg, lc.Fn)
		cct := fc.lookupContract(normalizeFuncName(lc.Fn), ct.Pkg)
		if fe == nil || cct == nil || fe.decl == nil {
			panic(unsupported("lemma call to " + lc.Fn + ": function or contract not found"))
		}
		fn, _ := fe.pkg.TypesInfo.Defs[fe.decl.Name].(*types.Func)
		if fn == nil {
			panic(unsupported("lemma call to " + lc.Fn + ": not a function"))
		}
		var args []Val
		for _, a := range lc.Args {
			args = append(args, fc.specVal(st, a, &specEnv{fc: fc, st: st, old: fc.entry, bind: bind}))
		}
		r := fc.applyContract(st, cct, fn, token.NoPos, args)
		var rs []Val
		if tup, ok := r.(VTuple); ok {
			rs = tup
		} else {
			rs = []Val{r}
		}
		for i, n := range lc.Results {
			if i < len(rs) && n != "_" {
				bind[n] = rs[i]
			}
		}
	}
	fc.canary(st, "canary.return1", token.NoPos)
	for k, cl := range ct.Ensures {
		if !fc.clauseActive(cl) {
			continue
		}
		env := &specEnv{fc: fc, st: st, old: fc.entry, bind: bind}
		t := fc.specBool(st, cl.Expr, env)
		fc.curEnv = env
		fc.assert(st, "lemma", clauseName("ensures", cl, k), t, token.NoPos, cl.Src)
		fc.curEnv = nil
	}
	res.Obls = fc.obls
	res.Notes = fc.notes
	for a := range fc.assumptions {
		res.Assumptions = append(res.Assumptions, a)
	}
	sort.Strings(res.Assumptions)
	for c := range fc.calleeUsed {
		res.Callees = append(res.Callees, c)
	}
	sort.Strings(res.Callees)
	return res
}
