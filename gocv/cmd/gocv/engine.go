package main

import (
	"fmt"
	"go/ast"
	"go/constant"
	"go/token"
	"go/types"
	"os"
	"path/filepath"
	"sort"
	"strings"
	"sync"

	"golang.org/x/tools/go/packages"
)

// Engine holds the loaded program and contract database.
type Engine struct {
	repo      string
	pkgs      []*packages.Package
	pkgByPath map[string]*packages.Package
	db        *ContractDB
	prelude   []string
	funcs     map[string]*funcEntry // pkgpath::Name -> decl
	errCodes  map[string]int
	errMu     sync.Mutex
	globInit  map[types.Object]ast.Expr
	workdir   string
	timeoutS  int
	intBits   int
	goarch    string
	known     []*KnownFinding
	sentinels map[*types.Var]map[string]bool
	sentMu    sync.Mutex
	verifDir  string
}

type funcEntry struct {
	pkg  *packages.Package
	decl *ast.FuncDecl
	lit  *ast.FuncLit // for Name$k
	name string
}

func loadEngine(repo, specDir string, goarch string) (*Engine, error) {
	env := os.Environ()
	env = append(env, "GOFLAGS=-mod=mod", "GOPROXY=off")
	if goarch != "" {
		env = append(env, "GOARCH="+goarch)
	}
	cfg := &packages.Config{
		Mode: packages.NeedName | packages.NeedSyntax | packages.NeedTypes | packages.NeedTypesInfo | packages.NeedFiles |
			packages.NeedImports | packages.NeedDeps,
		Dir: repo, Env: env,
	}
	pkgs, err := packages.Load(cfg, ".", "./prefork", "./fasthttpproxy", "./fasthttputil", "./stackless")
	if err != nil {
		return nil, err
	}
	e := &Engine{repo: repo, pkgs: pkgs, pkgByPath: map[string]*packages.Package{}, funcs: map[string]*funcEntry{},
		errCodes: map[string]int{}, globInit: map[types.Object]ast.Expr{}, intBits: 64, goarch: goarch}
	if goarch == "386" || goarch == "arm" {
		e.intBits = 32
	}
	pkgDirs := map[string]string{}
	for _, p := range pkgs {
		if len(p.Errors) > 0 {
			return nil, fmt.Errorf("package %s: %v", p.PkgPath, p.Errors[0])
		}
		e.pkgByPath[p.PkgPath] = p
		if len(p.GoFiles) > 0 {
			pkgDirs[filepath.Dir(p.GoFiles[0])] = p.PkgPath
		}
		for _, f := range p.Syntax {
			for _, d := range f.Decls {
				switch x := d.(type) {
				case *ast.FuncDecl:
					name := x.Name.Name
					if x.Recv != nil && len(x.Recv.List) > 0 {
						name = recvTypeName(x.Recv.List[0].Type) + "." + name
					}
					e.funcs[p.PkgPath+"::"+name] = &funcEntry{pkg: p, decl: x, name: name}
					// function literals: Name$1, Name$2 ... in source order
					k := 0
					if x.Body != nil {
						ast.Inspect(x.Body, func(n ast.Node) bool {
							if fl, ok := n.(*ast.FuncLit); ok {
								k++
								ln := fmt.Sprintf("%s$%d", name, k)
								e.funcs[p.PkgPath+"::"+ln] = &funcEntry{pkg: p, decl: x, lit: fl, name: ln}
							}
							return true
						})
					}
				case *ast.GenDecl:
					if x.Tok != token.VAR {
						continue
					}
					for _, sp := range x.Specs {
						vs := sp.(*ast.ValueSpec)
						for i, n := range vs.Names {
							if i < len(vs.Values) {
								if o := p.TypesInfo.Defs[n]; o != nil {
									e.globInit[o] = vs.Values[i]
								}
							}
						}
					}
				}
			}
		}
	}
	e.db = loadContracts(repo, specDir, pkgDirs)
	e.expandTypeInvs()
	e.prelude = []string{"(declare-sort Fuel 0)", "(declare-fun FZ () Fuel)", "(declare-fun FS (Fuel) Fuel)"}
	return e, nil
}

func recvTypeName(e ast.Expr) string {
	switch x := e.(type) {
	case *ast.StarExpr:
		return recvTypeName(x.X)
	case *ast.Ident:
		return x.Name
	case *ast.IndexExpr:
		return recvTypeName(x.X)
	case *ast.ParenExpr:
		return recvTypeName(x.X)
	}
	return "?"
}

// normalizeFuncName: "(*T).m" / "T.m" -> "T.m".
func normalizeFuncName(n string) string {
	n = strings.TrimSpace(n)
	n = strings.ReplaceAll(n, "(*", "")
	n = strings.ReplaceAll(n, ")", "")
	return n
}

func (e *Engine) errCode(o *types.Var) int {
	key := o.Name()
	if o.Pkg() != nil {
		key = o.Pkg().Path() + "." + o.Name()
	}
	e.errMu.Lock()
	defer e.errMu.Unlock()
	if c, ok := e.errCodes[key]; ok {
		return c
	}
	c := len(e.errCodes) + 1
	e.errCodes[key] = c
	return c
}

func (e *Engine) maxErrCode() int { return 100000 }

// globalBytes: content of `var x = []byte("literal")` (searched across loaded packages).
func (e *Engine) globalBytes(o *types.Var) (string, bool) {
	init, ok := e.globInit[o]
	if !ok {
		return "", false
	}
	call, ok := init.(*ast.CallExpr)
	if !ok || len(call.Args) != 1 {
		return "", false
	}
	p := e.pkgByPath[o.Pkg().Path()]
	if p == nil {
		return "", false
	}
	if tv, ok := p.TypesInfo.Types[call.Fun]; !ok || !tv.IsType() {
		return "", false
	}
	if tv, ok := p.TypesInfo.Types[call.Args[0]]; ok && tv.Value != nil && tv.Value.Kind() == constant.String {
		return constant.StringVal(tv.Value), true
	}
	return "", false
}

func (e *Engine) globalString(o *types.Var) (string, bool) {
	init, ok := e.globInit[o]
	if !ok {
		return "", false
	}
	p := e.pkgByPath[o.Pkg().Path()]
	if p == nil {
		return "", false
	}
	if tv, ok := p.TypesInfo.Types[init]; ok && tv.Value != nil && tv.Value.Kind() == constant.String {
		return constant.StringVal(tv.Value), true
	}
	return "", false
}

func (e *Engine) noteFuncLit(fc *FnCtx, id string, fl *ast.FuncLit) {}

// generic (non-byte) slice elements: placeholders until the element heap is added.
func (e *Engine) readGenericElem(fc *FnCtx, st *State, s VSlice, i T) Val {
	return fc.genericRead(st, s, i)
}
func (e *Engine) writeGenericElem(fc *FnCtx, st *State, s VSlice, i T, v Val) {
	fc.genericWrite(st, s, i, v)
}
func (e *Engine) elemFieldLoc(fc *FnCtx, st *State, cur loc, f *types.Var, rest []int, sel *types.Selection) loc {
	return fc.genericFieldLoc(st, cur, f, rest, sel)
}
func (e *Engine) makeGeneric(fc *FnCtx, st *State, r T, elem types.Type) {}
func (e *Engine) appendGeneric(fc *FnCtx, st *State, c *ast.CallExpr, dst VSlice) Val {
	return fc.genericAppend(st, c, dst)
}
func (e *Engine) copyGeneric(fc *FnCtx, st *State, c *ast.CallExpr, dst VSlice, src Val) Val {
	return fc.genericCopy(st, c, dst, src)
}
func (e *Engine) specElem(env *specEnv, s VSlice, i T) Val { return env.fc.genericSpecElem(env, s, i) }

type callEff struct{ heap, objs bool }

// callEffects: coarse static effect of a call (for loop havoc sets).
func (e *Engine) callEffects(fc *FnCtx, c *ast.CallExpr) callEff {
	name, pkgPath, fn, _, kind := fc.calleeInfo(c)
	if e.knownPure(pkgPath, name) {
		return callEff{}
	}
	if fn != nil {
		if ct := fc.lookupContract(name, pkgPath); ct != nil {
			if ct.Pure {
				return callEff{}
			}
			heap := ct.ModAll
			mpn, mpt, _ := sigParams(fn)
			for _, m := range ct.Modifies {
				// `modifies p` with p a pointer to a library (opaque) struct touches no byte region of our heap
				if id, ok := m.(SId); ok {
					opaque := false
					for i, n := range mpn {
						if n == id.Name {
							if pt, ok := mpt[i].Underlying().(*types.Pointer); ok && isOpaqueStruct(pt.Elem()) {
								opaque = true
							}
						}
					}
					if opaque {
						continue
					}
				}
				heap = true // conservatively: any other modifies may include a region
			}
			if len(ct.Modifies) == 0 && !ct.ModAll {
				// default: pointer params modified, slices reachable from them too
				pn, pt, _ := sigParams(fn)
				_ = pn
				for _, t := range pt {
					if _, ok := t.Underlying().(*types.Pointer); ok {
						heap = true
					}
				}
				return callEff{heap: heap, objs: heap}
			}
			return callEff{heap: heap, objs: true}
		}
	}
	if oc := fc.findOnCall(name, pkgPath, kind, false, c); oc != nil && !oc.Also {
		return callEff{heap: !oc.NoHavoc || oc.HeapOnly, objs: !oc.NoHavoc}
	}
	return callEff{heap: true, objs: true}
}

var pureFuncs = map[string]bool{
	"errors.New": true, "fmt.Errorf": true, "fmt.Sprintf": true, "errors.Is": true, "errors.As": true,
	"time.Now": true, "time.Since": true, "time.Until": true, "strconv.Itoa": true,
}

func (e *Engine) knownPure(pkgPath, name string) bool {
	short := pkgPath
	if k := strings.LastIndex(short, "/"); k >= 0 {
		short = short[k+1:]
	}
	return pureFuncs[short+"."+name]
}

// ---------------------------------------------------------------------------
// verifying one function

type FuncResult struct {
	Name        string
	Mode        string
	Loops       int
	Obls        []*Obligation
	Unsupported string
	Notes       []string
	Assumptions []string
	Callees     []string
	Havocs      int
	IntBits     int
}

func (e *Engine) findFunc(pkgPath, name string) *funcEntry {
	return e.funcs[pkgPath+"::"+normalizeFuncName(name)]
}

// verifyFunc generates all obligations of one function under contract for property prop.
func (e *Engine) verifyFunc(ct *FuncContract, prop string) (res *FuncResult) {
	if ct.Lemma {
		return e.verifyLemma(ct, prop)
	}
	res = &FuncResult{Name: ct.Name, IntBits: e.intBits}
	fe := e.findFunc(ct.Pkg, ct.Name)
	if fe == nil {
		res.Unsupported = "contract-anchor: function " + ct.Name + " not found in " + ct.Pkg
		return res
	}
	fc := &FnCtx{eng: e, pkg: fe.pkg, decl: fe.decl, contract: ct, prop: prop, name: displayName(fe),
		loopOrd: map[ast.Node]int{}, strConsts: map[string]T{}, constRgn: map[string]int{}, constRgnS: map[int]string{},
		specDecl: map[string]bool{}, oblNames: map[string]int{}, assumptions: map[string]bool{}, calleeUsed: map[string]bool{},
		addrTaken: map[types.Object]bool{}, entryVars: map[string]Val{}, fieldPtrs: map[string]loc{}, relied: map[string]bool{},
		intBits: e.intBits, wrap: ct.Mode == "wrap", lenient: ct.Skeleton}
	if e.intBits == 32 {
		fc.name += "@32"
	}
	res.Mode = "exact"
	if ct.Skeleton {
		res.Mode = "skeleton"
	}
	if fc.wrap {
		res.Mode += "+wrap"
	}
	var ftype *ast.FuncType
	if fe.lit != nil {
		fc.lit = fe.lit
		fc.body = fe.lit.Body
		ftype = fe.lit.Type
		fc.sig = fe.pkg.TypesInfo.TypeOf(fe.lit).(*types.Signature)
	} else {
		if fe.decl.Body == nil {
			res.Unsupported = "no body"
			return res
		}
		fc.body = fe.decl.Body
		ftype = fe.decl.Type
		fc.sig = fe.pkg.TypesInfo.Defs[fe.decl.Name].Type().(*types.Signature)
	}
	_ = ftype
	defer func() {
		if r := recover(); r != nil {
			if u, ok := r.(unsupportedErr); ok {
				res.Unsupported = u.msg
				res.Obls = fc.obls
				return
			}
			// an internal error of the generator must fail the check of this function, not crash the run
			res.Unsupported = fmt.Sprintf("internal error in the VC generator: %v", r)
			res.Obls = fc.obls
		}
	}()
	// loop ordinals in source order
	n := 0
	ast.Inspect(fc.body, func(m ast.Node) bool {
		switch m.(type) {
		case *ast.ForStmt, *ast.RangeStmt:
			n++
			fc.loopOrd[m] = n
		case *ast.FuncLit:
			if m != ast.Node(fc.lit) {
				// loops inside nested closures are numbered too (they are inlined when deferred/invoked)
			}
		}
		return true
	})
	res.Loops = n
	for ord := range ct.Loops {
		if ord < 1 || ord > n {
			res.Unsupported = fmt.Sprintf("contract-anchor: loop %d does not exist in %s (has %d loops)", ord, ct.Name, n)
			return res
		}
	}
	fc.scanAddrTaken()
	st := fc.entryState()
	fc.entry = st.clone()
	// preconditions are assumed
	for _, cl := range ct.Requires {
		t := fc.specBool(st, cl.Expr, &specEnv{fc: fc, st: st, old: st})
		fc.assume(st, t)
	}
	fc.useLemmas(st)
	fc.initFrame(st)
	// `holds x.lock`: entered with the monitored lock held (a "...Nolock" helper called inside a critical section)
	for _, h := range ct.Holds {
		st.held[h] = tTrue
	}
	fc.entry = st.clone()
	fc.canary(st, "canary.entry", fc.body.Pos())
	fc.resetComplete(st)
	end := fc.execBlock(st, fc.body.List)
	if end != nil {
		// falling off the end: implicit return
		var vals []Val
		for _, rv := range fc.results {
			if cur, ok := end.vars[rv]; ok {
				vals = append(vals, cur)
			} else {
				vals = append(vals, fc.zeroVal(rv.Type()))
			}
		}
		fc.finishReturn(end, vals, fc.body.Rbrace)
	}
	res.Obls = fc.obls
	res.Notes = fc.notes
	res.Havocs = fc.havocs
	for owners := range fc.relied {
		res.Assumptions = append(res.Assumptions, "clauses of "+fc.name+" owned by "+owners+" are relied upon here and proved in the check of that property")
	}
	for a := range fc.assumptions {
		res.Assumptions = append(res.Assumptions, a)
	}
	sort.Strings(res.Assumptions)
	for c := range fc.calleeUsed {
		res.Callees = append(res.Callees, c)
	}
	sort.Strings(res.Callees)
	return res
}

func displayName(fe *funcEntry) string {
	short := fe.pkg.PkgPath
	if k := strings.LastIndex(short, "/"); k >= 0 {
		short = short[k+1:]
	}
	return short + "." + fe.name
}

func (fc *FnCtx) scanAddrTaken() {
	depth := 0
	var visit func(n ast.Node) bool
	visit = func(n ast.Node) bool {
		switch x := n.(type) {
		case *ast.FuncLit:
			if x == fc.lit {
				return true
			}
			depth++
			ast.Inspect(x.Body, func(m ast.Node) bool {
				switch y := m.(type) {
				case *ast.AssignStmt:
					for _, l := range y.Lhs {
						if id, ok := l.(*ast.Ident); ok {
							if o := fc.pkg.TypesInfo.Uses[id]; o != nil {
								fc.addrTaken[o] = true
							}
						}
					}
				case *ast.IncDecStmt:
					if id, ok := y.X.(*ast.Ident); ok {
						if o := fc.pkg.TypesInfo.Uses[id]; o != nil {
							fc.addrTaken[o] = true
						}
					}
				}
				return true
			})
			depth--
			return false
		case *ast.UnaryExpr:
			if x.Op == token.AND {
				// &local: the local is boxed into an object when the address is taken (see addressOf); only a
				// call that receives the pointer may change it (pointers to locals are assumed not to be retained)
				_ = x
			}
		}
		return true
	}
	ast.Inspect(fc.body, visit)
}

// entryState creates symbolic parameters and the initial heap.
func (fc *FnCtx) entryState() *State {
	st := &State{pc: tTrue, vars: map[types.Object]Val{}, ghost: map[string]Val{}, objs: map[int]Val{}, held: map[string]T{}}
	st.heap = fc.fresh("H0", SHeap)
	st.cheap = fc.fresh("C0", SHeap)
	fc.mapsUsed = fc.lenient && fc.usesIntMaps()
	st.nextR = fc.fresh("nextR0", SInt)
	fc.axiom(lt(mkInt(0), st.nextR))
	var all []*types.Var
	if r := fc.sig.Recv(); r != nil {
		all = append(all, r)
	}
	for i := 0; i < fc.sig.Params().Len(); i++ {
		all = append(all, fc.sig.Params().At(i))
	}
	fc.params = all
	var leaves []T
	for _, p := range all {
		name := p.Name()
		if name == "" || name == "_" {
			continue
		}
		v := fc.freshVal(p.Type(), name)
		if pv, ok := v.(VPtr); ok {
			// pointer parameters are non-nil and point to their own object
			fc.axiom(lt(mkInt(0), pv.ID))
			target := fc.freshVal(pv.Elem, name)
			id := fc.newObj(st, target)
			v = VPtr{pv.ID, id, pv.Elem}
			fc.collectRegions(target, &leaves)
		}
		fc.collectRegions(v, &leaves)
		if !(fc.contract != nil && fc.contract.MayAlias) {
			// the offset of a slice inside its backing array cannot be observed by Go code; since distinct
			// parameters are assumed not to share a backing array, taking it as 0 loses no behaviour
			v = fc.zeroOffsets(st, v, 0)
		}
		st.vars[p] = v
		fc.entryVars[name] = v
	}
	// every pre-existing region is below nextR0; distinct slice leaves do not alias (unless mayalias)
	for _, r := range leaves {
		fc.axiom(lt(r, st.nextR))
	}
	if !(fc.contract != nil && fc.contract.MayAlias) && len(leaves) > 1 {
		var us []T
		for i, r := range leaves {
			us = append(us, ite(eq(r, mkInt(0)), mkInt(int64(-1000-i)), r))
		}
		fc.axiom(app(SBool, "distinct", us...))
		fc.assumptions["distinct slice parameters / fields do not share a backing array on entry (unless the contract says mayalias)"] = true
	}
	// results
	for i := 0; i < fc.sig.Results().Len(); i++ {
		rv := fc.sig.Results().At(i)
		fc.results = append(fc.results, rv)
		if rv.Name() != "" && rv.Name() != "_" {
			st.vars[rv] = fc.zeroVal(rv.Type())
		}
	}
	rn := make([]string, len(fc.results))
	for i, rv := range fc.results {
		rn[i] = rv.Name()
		if fc.contract != nil && i < len(fc.contract.ResNames) {
			rn[i] = fc.contract.ResNames[i]
		}
		if rn[i] == "" || rn[i] == "_" {
			if len(fc.results) == 1 {
				rn[i] = "result"
			} else {
				rn[i] = fmt.Sprintf("result%d", i)
			}
		}
	}
	fc.resNames = rn
	// ghosts
	if fc.contract != nil {
		for _, g := range fc.contract.Ghosts {
			if g.Init != nil {
				st.ghost[g.Name] = fc.specVal(st, g.Init, &specEnv{fc: fc, st: st, old: st})
			} else {
				st.ghost[g.Name] = fc.freshGhost(g)
			}
		}
	}
	return st
}

// checkPost asserts the postconditions at a return.
func (fc *FnCtx) checkPost(st *State, vals []Val, p token.Pos) {
	if fc.contract == nil {
		return
	}
	bind := map[string]Val{}
	for i, n := range fc.resNames {
		if i < len(vals) {
			bind[n] = vals[i]
		}
	}
	for _, ep := range fc.contract.ElemPtrs {
		// the returned pointer has to be exactly &slice[idx]
		env := &specEnv{fc: fc, st: st, old: fc.entry, bind: bind, entryPars: true, keepSlice: true}
		want, ok := env.eval(ep.Slice).(VSlice)
		got, ok2 := bind[ep.Res].(VElemPtr)
		goal := tFalse
		if ok && ok2 {
			goal = and(eq(got.S.Rgn, want.Rgn), eq(add(got.S.Off, got.Idx), add(want.Off, asInt(env.eval(ep.Idx)))))
		}
		fc.assert(st, "ensures", "elemptr["+ep.Res+"]", goal, p, ep.Res+" == &"+ep.Slice.String()+"["+ep.Idx.String()+"]")
	}
	for k, cl := range fc.contract.Ensures {
		if !fc.clauseActive(cl) {
			continue
		}
		env := &specEnv{fc: fc, st: st, old: fc.entry, bind: bind, entryPars: true}
		t := fc.specBool(st, cl.Expr, env)
		fc.curEnv = env
		o := fc.assert(st, "ensures", clauseName("ensures", cl, k), t, p, cl.Src)
		fc.curEnv = nil
		if o != nil {
			o.Msg = "at return " + fc.pos(p)
		}
	}
	fc.checkFrame(st, p)
}

// checkFrame: what the contract does not list under `modifies` must be unchanged at return.
// This is the callee side of the havoc performed at call sites (applyModifies).
func (fc *FnCtx) checkFrame(st *State, p token.Pos) {
	ct := fc.contract
	if ct.ModAll || ct.FrameAssumed || fc.lenient || !fc.safetyActive() {
		return
	}
	modPaths := map[string]bool{}
	for _, m := range ct.Modifies {
		modPaths[m.String()] = true
	}
	covered := func(path string) bool {
		for m := range modPaths {
			if path == m || strings.HasPrefix(path, m+".") {
				return true
			}
		}
		return false
	}
	explicit := len(ct.Modifies) > 0 || ct.Pure
	// 1. byte heap: checked write by write (frameWrite), see heapwin.go
	// 2. fields of pointer parameters
	if explicit {
		names := make([]string, 0, len(fc.entryVars))
		for n := range fc.entryVars {
			names = append(names, n)
		}
		sort.Strings(names)
		for _, n := range names {
			pv, ok := fc.entryVars[n].(VPtr)
			if !ok || pv.Obj < 0 {
				continue
			}
			ev, fv := fc.entry.objs[pv.Obj], st.objs[pv.Obj]
			if ev == nil || fv == nil {
				continue
			}
			var cs []T
			var cmp func(path string, a, b Val)
			cmp = func(path string, a, b Val) {
				if covered(path) {
					return
				}
				as, aok := a.(VStruct)
				bs, bok := b.(VStruct)
				if aok && bok {
					for _, k := range sortedKeys(as.F) {
						if bv, ok := bs.F[k]; ok {
							cmp(path+"."+k, as.F[k], bv)
						} else {
							cs = append(cs, tFalse) // field forgotten (havocked) on the way
						}
					}
					return
				}
				if !sameVal(a, b) {
					cs = append(cs, valEq(a, b))
				}
			}
			cmp(n, ev, fv)
			if g := and(cs...); g.S != "true" {
				fc.assert(st, "frame", "frame["+n+"]", g, p, "fields not listed under modifies are unchanged")
			}
		}
	}
}

// ---------------------------------------------------------------------------
// generic slices: minimal support (identity of element reads is not tracked yet)

func (fc *FnCtx) genericRead(st *State, s VSlice, i T) Val {
	if isCellType(s.Elem) {
		return fc.cellRead(st, s, i)
	}
	if !fc.lenient {
		panic(unsupported("read of []" + s.Elem.String() + " element"))
	}
	fc.havocs++
	return fc.freshVal(s.Elem, "elem")
}
func (fc *FnCtx) genericWrite(st *State, s VSlice, i T, v Val) {
	if isCellType(s.Elem) {
		fc.cellWrite(st, s, i, v)
		return
	}
	if !fc.lenient {
		panic(unsupported("write of []" + s.Elem.String() + " element"))
	}
	fc.havocs++
}
func (fc *FnCtx) genericFieldLoc(st *State, cur loc, f *types.Var, rest []int, sel *types.Selection) loc {
	if cur.kind == 2 && isCellType(cur.slice.Elem) && len(rest) == 0 {
		// a field of a cell-encoded element: read-modify-write of the whole cell (see load / storeLoc)
		cur.path = append(append([]string{}, cur.path...), f.Name())
		cur.typ = f.Type()
		return cur
	}
	if !fc.lenient {
		panic(unsupported("field of slice element"))
	}
	return loc{kind: 3, typ: sel.Type()}
}
func (fc *FnCtx) genericAppend(st *State, c *ast.CallExpr, dst VSlice) Val {
	if isCellType(dst.Elem) {
		return fc.cellAppend(st, c, dst)
	}
	for _, a := range c.Args[1:] {
		fc.eval(st, a)
	}
	if !fc.lenient {
		panic(unsupported("append to []" + dst.Elem.String()))
	}
	r := fc.freshVal(types.NewSlice(dst.Elem), "app").(VSlice)
	if !c.Ellipsis.IsValid() {
		fc.axiom(eq(r.Len, add(dst.Len, mkInt(int64(len(c.Args)-1)))))
	} else {
		fc.axiom(le(dst.Len, r.Len))
	}
	return r
}
func (fc *FnCtx) genericCopy(st *State, c *ast.CallExpr, dst VSlice, src Val) Val {
	if isCellType(dst.Elem) {
		return fc.cellCopy(st, dst, src)
	}
	if !fc.lenient {
		panic(unsupported("copy of []" + dst.Elem.String()))
	}
	n := fc.fresh("cpn", SInt)
	fc.axiom(and(le(mkInt(0), n), le(n, dst.Len)))
	return VInt{n}
}
func (fc *FnCtx) genericSpecElem(env *specEnv, s VSlice, i T) Val {
	if isCellType(s.Elem) {
		return fc.decodeElem(sel(sel(env.st.cheap, s.Rgn), add(s.Off, i)), s.Elem, s.Rgn, T{})
	}
	panic(unsupported("contract over []" + s.Elem.String() + " elements"))
}

// useLemmas assumes the conclusions of the lemmas listed under `uses` (each lemma is proved separately).
func (fc *FnCtx) useLemmas(st *State) {
	for _, name := range fc.contract.Uses {
		lc, ok := fc.eng.db.Funcs[fc.contract.Pkg+"::lemma:"+name]
		if !ok || len(lc.LemmaParams) > 0 || len(lc.Requires) > 0 || len(lc.Calls) > 0 {
			panic(unsupported("uses lemma " + name + ": not a closed lemma"))
		}
		for _, cl := range lc.Ensures {
			fc.axiom(fc.specBool(st, cl.Expr, &specEnv{fc: fc, st: st, old: st, callee: lc}))
		}
		fc.calleeUsed["lemma "+name] = true
	}
}
