package main

import (
	"fmt"
	"go/ast"
	"go/types"
	"strings"
)

// Cell-encoded slice elements.
//
// A struct type named by a `celltype T` directive (all of its fields []byte, string, bool or integer) may be the element
// type of a slice in the modelled heap: each element occupies one cell of the region array, the cell holds an
// integer identity, and the fields of the element are uninterpreted functions of that identity
//
//	cell_T_f_r / _o / _n / _c (id)   for a []byte field f (region, offset, len, cap)
//	cell_T_f (id)                    for a bool or integer field
//
// Reading s[i] decodes the identity into a struct value; writing a struct value (or one field through &s[i])
// allocates a fresh identity whose fields are the written ones. copy / append move identities, so everything the
// byte heap offers (slicing, frames, quantified contracts over cells) carries over unchanged. Two elements are equal
// when all their fields are.

var cellTypes = map[string]bool{} // "pkgpath::TypeName"

func cellKey(t types.Type) (string, *types.Named) {
	n, ok := t.(*types.Named)
	if !ok {
		if a, ok := t.(*types.Alias); ok {
			return cellKey(types.Unalias(a))
		}
		return "", nil
	}
	if n.Obj().Pkg() == nil {
		return "", nil
	}
	return n.Obj().Pkg().Path() + "::" + n.Obj().Name(), n
}

func isCellType(t types.Type) bool {
	if t == nil {
		return false
	}
	if _, ok := t.Underlying().(*types.Pointer); ok && len(cellTypes) > 0 {
		return true // a slice of pointers: the cell holds the pointer identity itself
	}
	k, _ := cellKey(t)
	return k != "" && cellTypes[k]
}

// decodeElem / encodeElem: cell content <-> element value (struct by accessor functions, pointer by identity).
func (fc *FnCtx) decodeElem(id T, t types.Type, host T, pc T) Val {
	if pt, ok := t.Underlying().(*types.Pointer); ok {
		return VPtr{ID: id, Obj: -1, Elem: pt.Elem()}
	}
	return fc.decodeCell(id, t, host, pc)
}

func (fc *FnCtx) encodeElem(v Val, t types.Type) T {
	if _, ok := t.Underlying().(*types.Pointer); ok {
		switch x := v.(type) {
		case VPtr:
			return x.ID
		case VInt:
			return x.T
		case VOpaque:
			return x.ID
		case VElemPtr:
			// &s[i] stored in a slice of pointers: identity not tracked
			id := fc.fresh("eptr", SInt)
			fc.axiom(lt(mkInt(0), id))
			return id
		}
		panic(unsupported(fmt.Sprintf("pointer cell write of %T", v)))
	}
	return fc.encodeCell(v, t)
}

// isHeapElem: element types whose slices live in the modelled heap.
func isHeapElem(t types.Type) bool { return isByteElem(t) || isCellType(t) }

// VCellSeq is a spec-level sequence of cell-encoded elements.
type VCellSeq struct {
	Arr, Off, Len T
	Elem          types.Type
}

func (fc *FnCtx) cellFun(t types.Type, field, part string, sort Sort) string {
	_, n := cellKey(t)
	name := "cell_" + n.Obj().Name() + "_" + field
	if part != "" {
		name += "_" + part
	}
	if !fc.specDecl["$"+name] {
		fc.specDecl["$"+name] = true
		fc.decls = append(fc.decls, fmt.Sprintf("(declare-fun %s (Int) %s)", name, sort))
	}
	return name
}

// decodeCell turns a cell identity into the struct value it stands for. host is the region the cell was read from
// (nested byte slices never live in the array that holds the cells).
func (fc *FnCtx) decodeCell(id T, t types.Type, host T, pc T) VStruct {
	st := t.Underlying().(*types.Struct)
	f := map[string]Val{}
	var facts []T
	for i := 0; i < st.NumFields(); i++ {
		fd := st.Field(i)
		switch u := fd.Type().Underlying().(type) {
		case *types.Slice:
			if !isByteElem(u.Elem()) {
				panic(unsupported("celltype field " + fd.Name() + ": only []byte slices"))
			}
			sv := VSlice{
				Rgn:  app(SInt, fc.cellFun(t, fd.Name(), "r", SInt), id),
				Off:  app(SInt, fc.cellFun(t, fd.Name(), "o", SInt), id),
				Len:  app(SInt, fc.cellFun(t, fd.Name(), "n", SInt), id),
				Cap:  app(SInt, fc.cellFun(t, fd.Name(), "c", SInt), id),
				Elem: u.Elem(),
			}
			facts = append(facts, le(mkInt(0), sv.Rgn), le(mkInt(0), sv.Off), le(mkInt(0), sv.Len), le(sv.Len, sv.Cap),
				implies(eq(sv.Rgn, mkInt(0)), eq(sv.Cap, mkInt(0))), le(sv.Cap, fc.maxInt()))
			if host.S != "" {
				facts = append(facts, neq(sv.Rgn, host))
			}
			// the []byte fields of one element have separate backing arrays (ownership discipline of the storage layer)
			for _, prev := range f {
				if ps, ok := prev.(VSlice); ok {
					facts = append(facts, or(neq(ps.Rgn, sv.Rgn), eq(sv.Rgn, mkInt(0))))
				}
			}
			fc.assumptions["the []byte fields of one []argsKV entry do not share a backing array"] = true
			f[fd.Name()] = sv
		case *types.Basic:
			switch {
			case u.Info()&types.IsBoolean != 0:
				f[fd.Name()] = VBool{app(SBool, fc.cellFun(t, fd.Name(), "", SBool), id)}
			case u.Info()&types.IsInteger != 0:
				f[fd.Name()] = VInt{app(SInt, fc.cellFun(t, fd.Name(), "", SInt), id)}
			default:
				panic(unsupported("celltype field " + fd.Name() + ": unsupported basic type"))
			}
		default:
			panic(unsupported("celltype field " + fd.Name() + ": unsupported type"))
		}
	}
	if fc.inQuant == 0 && len(facts) > 0 {
		if pc.S == "" {
			fc.axiom(and(facts...))
		} else {
			fc.axiom(implies(pc, and(facts...)))
		}
	}
	return VStruct{Typ: t, F: f}
}

// sameCell: is every field of sv literally the accessor of one and the same identity? Then sv is that element.
func (fc *FnCtx) sameCell(sv VStruct, t types.Type) (T, bool) {
	st := t.Underlying().(*types.Struct)
	cand := ""
	check := func(term T, field, part string, sort Sort) bool {
		pre := "(" + fc.cellFun(t, field, part, sort) + " "
		if !strings.HasPrefix(term.S, pre) || !strings.HasSuffix(term.S, ")") {
			return false
		}
		id := term.S[len(pre) : len(term.S)-1]
		if cand == "" {
			cand = id
		}
		return id == cand
	}
	for i := 0; i < st.NumFields(); i++ {
		name := st.Field(i).Name()
		fv, ok := sv.F[name]
		if !ok {
			return T{}, false
		}
		switch x := fv.(type) {
		case VSlice:
			if !check(x.Rgn, name, "r", SInt) || !check(x.Off, name, "o", SInt) || !check(x.Len, name, "n", SInt) || !check(x.Cap, name, "c", SInt) {
				return T{}, false
			}
		case VBool:
			if !check(x.T, name, "", SBool) {
				return T{}, false
			}
		case VInt:
			if !check(x.T, name, "", SInt) {
				return T{}, false
			}
		default:
			return T{}, false
		}
	}
	if cand == "" {
		return T{}, false
	}
	return T{cand, SInt}, true
}

// encodeCell allocates an identity for a struct value.
func (fc *FnCtx) encodeCell(v Val, t types.Type) T {
	sv, ok := v.(VStruct)
	if !ok {
		panic(unsupported(fmt.Sprintf("cell write of %T", v)))
	}
	if old, ok := fc.sameCell(sv, t); ok {
		return old // an element copied as a whole keeps its identity
	}
	id := fc.fresh("cell", SInt)
	dec := fc.decodeCell(id, t, T{}, T{})
	st := t.Underlying().(*types.Struct)
	for i := 0; i < st.NumFields(); i++ {
		name := st.Field(i).Name()
		fv, ok := sv.F[name]
		if !ok {
			fv = fc.zeroVal(st.Field(i).Type())
		}
		fc.axiom(valEq(dec.F[name], fv))
	}
	return id
}

// onCells runs f with the cell heap in the place of the byte heap, so that the byte-heap machinery (append, copy,
// window frames) can be used for cells unchanged. Cell operations are not subject to the byte frame obligations.
func (fc *FnCtx) onCells(st *State, f func()) {
	saved := fc.frame.all
	fc.frame.all = true
	st.heap, st.cheap = st.cheap, st.heap
	defer func() {
		st.heap, st.cheap = st.cheap, st.heap
		fc.frame.all = saved
	}()
	f()
}

func (fc *FnCtx) cellRead(st *State, s VSlice, i T) Val {
	id := fc.define(sel(sel(st.cheap, s.Rgn), add(s.Off, i)), "cell")
	return fc.decodeElem(id, s.Elem, s.Rgn, st.pc)
}

func (fc *FnCtx) cellWrite(st *State, s VSlice, i T, v Val) {
	id := fc.encodeElem(v, s.Elem)
	cell := add(s.Off, i)
	na := store(sel(st.cheap, s.Rgn), cell, id)
	st.cheap = fc.define(store(st.cheap, s.Rgn, na), "C")
}

// cellAppend: append(dst, elems...) / append(dst, src...) for a cell-encoded element type.
func (fc *FnCtx) cellAppend(st *State, c *ast.CallExpr, dst VSlice) Val {
	var r Val
	if c.Ellipsis.IsValid() {
		sv, ok := fc.eval(st, c.Args[1]).(VSlice)
		if !ok {
			panic(unsupported("append of a non-slice to []" + dst.Elem.String()))
		}
		fc.onCells(st, func() { r = fc.appendSeq(st, dst, VStr{sel(st.heap, sv.Rgn), sv.Off, sv.Len}) })
		return r
	}
	if len(c.Args) == 1 {
		return dst
	}
	tmp := fc.fresh("elems", SArr)
	for i, a := range c.Args[1:] {
		fc.axiom(eq(sel(tmp, mkInt(int64(i))), fc.encodeElem(fc.eval(st, a), dst.Elem)))
	}
	fc.onCells(st, func() { r = fc.appendSeq(st, dst, VStr{tmp, mkInt(0), mkInt(int64(len(c.Args) - 1))}) })
	return r
}

func (fc *FnCtx) cellCopy(st *State, dst VSlice, src Val) Val {
	sv, ok := src.(VSlice)
	if !ok {
		panic(unsupported("copy from a non-slice to []" + dst.Elem.String()))
	}
	var n T
	fc.onCells(st, func() {
		seq := VStr{sel(st.heap, sv.Rgn), sv.Off, sv.Len}
		n = fc.define(ite(le(dst.Len, seq.Len), dst.Len, seq.Len), "cpn")
		fc.copyInto(st, dst, seq, n)
	})
	return VInt{n}
}

// cellTypeByName resolves "[]T" in a spec-function signature.
func (fc *FnCtx) cellTypeByName(name string) types.Type {
	name = strings.TrimPrefix(name, "[]")
	if o := fc.pkg.Types.Scope().Lookup(name); o != nil && isCellType(o.Type()) {
		return o.Type()
	}
	panic(unsupported("spec parameter type []" + name + " is not a celltype"))
}
