package main

import (
	"encoding/json"
	"fmt"
	"os"
	"path/filepath"
	"sort"
	"strconv"
	"strings"
	"time"
)

// KnownFinding is one entry of /verif/known_findings.json.
type KnownFinding struct {
	Property   string `json:"property"`
	Obligation string `json:"obligation"` // base obligation name (no ~k suffix)
	Except     string `json:"except"`     // input class, contract language, evaluated in the obligation's state
	What       string `json:"what"`
	Replay     string `json:"replay,omitempty"`
	exceptExpr SExpr
	seen       bool
}

type knownFile struct {
	Findings []*KnownFinding `json:"findings"`
	Fixed    []string        `json:"fixed"`
}

func loadKnown(path string) ([]*KnownFinding, error) {
	data, err := os.ReadFile(path)
	if err != nil {
		if os.IsNotExist(err) {
			return nil, nil
		}
		return nil, err
	}
	var kf knownFile
	if err := json.Unmarshal(data, &kf); err != nil {
		return nil, fmt.Errorf("%s: %v", path, err)
	}
	for _, f := range kf.Findings {
		if f.Except == "" {
			f.Except = "true"
		}
		e, err := parseSpecExpr(f.Except)
		if err != nil {
			return nil, fmt.Errorf("%s: finding %s: %v", path, f.Obligation, err)
		}
		f.exceptExpr = e
	}
	return kf.Findings, nil
}

// Evidence mirrors EVIDENCE.schema.json (level proof) plus extra keys.
type Evidence struct {
	PropertyID  string         `json:"property_id"`
	Tier        string         `json:"tier"`
	Seed        int            `json:"seed"`
	Level       string         `json:"level"`
	Coverage    map[string]any `json:"coverage"`
	Assumptions []string       `json:"assumptions"`
	WallS       float64        `json:"wall_s"`
	Violations  int            `json:"violations"`
}

func (r *Runner) checkProperty(id string) int {
	t0 := time.Now()
	seed, _ := strconv.Atoi(os.Getenv("VERIF_SEED"))
	if err := r.load(); err != nil {
		fmt.Fprintln(os.Stderr, "gocv:", err)
		fmt.Printf("VIOLATION property=%s replay=%s no-failing-input-found\n", id, r.toolFailure(id, err.Error()))
		return 1
	}
	defer r.cleanup()
	known, err := loadKnown(filepath.Join(r.verif, "known_findings.json"))
	if err != nil {
		fmt.Fprintln(os.Stderr, "gocv:", err)
		return 2
	}
	var mine []*KnownFinding
	for _, k := range known {
		if k.Property == id {
			mine = append(mine, k)
		}
	}
	r.eng.known = mine
	cts := r.contractsFor(id)
	if len(cts) == 0 {
		fmt.Fprintf(os.Stderr, "gocv: no contract is tagged with property %s\n", id)
		fmt.Printf("VIOLATION property=%s replay=%s no-failing-input-found\n", id, r.toolFailure(id, "no obligations generated (vacuous check)"))
		return 1
	}
	for _, ct := range cts {
		for _, s := range ct.IntSizes {
			if s == 32 {
				if err := r.load32(); err == nil {
					r.eng32.known = mine
				}
			}
		}
	}
	frs := r.generate(cts, id)
	r.solveAll(frs)

	// classify
	type vio struct {
		o      *Obligation
		reason string
	}
	var violations []vio
	var knownHits []*Obligation
	nObl, nDis, nCan, nCanOK, nRestricted := 0, 0, 0, 0, 0
	deadReturns := []string{} // return statements no execution reaches under the contract (reported, not failed: dead code is legal)
	byBackend := map[string]int{}
	solverTime := 0.0
	var undischarged []string
	var toolErrs []string
	var samples []any
	var slowest struct {
		secs    float64
		name    string
		retried bool
	}
	var slow []string
	var funcs []map[string]any
	assumptions := map[string]bool{}
	callees := map[string]bool{}
	for _, fr := range frs {
		fn := map[string]any{"name": fr.Name, "mode": fr.Mode, "loops": fr.Loops, "int_bits": fr.IntBits}
		if fr.Unsupported != "" {
			toolErrs = append(toolErrs, fr.Name+": "+fr.Unsupported)
			fn["unsupported"] = fr.Unsupported
		}
		cnt := 0
		retReach, anyRet := false, false
		for _, o := range fr.Obls {
			solverTime += o.Verdict.Seconds
			if o.Canary {
				nCan++
				if o.Verdict.Result != "unsat" {
					nCanOK++
				}
				if strings.Contains(o.Name, "canary.return") {
					anyRet = true
					if o.Verdict.Result != "unsat" {
						retReach = true
					} else {
						deadReturns = append(deadReturns, o.Name+" ("+o.Pos+")")
					}
				} else if o.Verdict.Result == "unsat" {
					toolErrs = append(toolErrs, o.Name+": unreachable (contradictory assumptions?)")
				}
				continue
			}
			cnt++
			nObl++
			switch o.Verdict.Result {
			case "unsat":
				nDis++
				o.Status = "discharged"
				byBackend[o.Verdict.Solver]++
				if o.Verdict.Seconds > slowest.secs {
					slowest.secs, slowest.name, slowest.retried = o.Verdict.Seconds, o.Name, o.Verdict.Retried
				}
				if o.Verdict.Seconds > 4 || o.Verdict.Retried {
					slow = append(slow, fmt.Sprintf("%s %.1fs retried=%v", o.Name, o.Verdict.Seconds, o.Verdict.Retried))
				}
				if len(samples) < 12 {
					samples = append(samples, map[string]any{"obligation": o.Name, "at": o.Pos, "solver": o.Verdict.Solver,
						"seconds": round3(o.Verdict.Seconds), "smt_bytes": len(o.query("", false))})
				}
			case "error":
				toolErrs = append(toolErrs, o.Name+": "+o.Verdict.Model)
				undischarged = append(undischarged, o.Name)
			default:
				// failed: known finding?
				if o.Except.S != "" {
					v := runSolvers(r.workdir, o.Name+".restricted", o.query(not(o.Except).S, false), r.queryTimeout(), r.only)
					solverTime += v.Seconds
					if v.Result == "unsat" {
						// discharged outside the recorded input class of the known finding
						nDis++
						nRestricted++
						byBackend[v.Solver]++
						o.Status = "known-finding"
						knownHits = append(knownHits, o)
						for _, k := range o.Known {
							k.seen = true
						}
						continue
					}
				}
				o.Status = "violation"
				undischarged = append(undischarged, o.Name)
				violations = append(violations, vio{o, o.Verdict.Result})
			}
		}
		if anyRet && !retReach && fr.Unsupported == "" {
			toolErrs = append(toolErrs, fr.Name+": no return statement is reachable (contradictory contract?)")
		}
		fn["obligations"] = cnt
		funcs = append(funcs, fn)
		for _, a := range fr.Assumptions {
			assumptions[a] = true
		}
		for _, c := range fr.Callees {
			callees[c] = true
		}
		for _, n := range fr.Notes {
			assumptions["note: "+fr.Name+": "+n] = true
		}
	}
	exit := 0
	// report
	replayDir := filepath.Join(r.outDir(), "replay")
	for _, v := range violations {
		rp := r.replayObligation(v.o, id, replayDir)
		suffix := ""
		if rp == nil || !rp.Reproduced {
			suffix = " no-failing-input-found"
		}
		path := filepath.Join(replayDir, sanitize(v.o.Name), "replay.json")
		if rp != nil {
			path = rp.Path
		}
		fmt.Printf("VIOLATION property=%s replay=%s%s\n", id, path, suffix)
		fmt.Printf("  obligation %s (%s) at %s: %s [%s]\n", v.o.Name, v.o.Kind, v.o.Pos, v.o.Src, v.reason)
		exit = 1
	}
	for _, te := range toolErrs {
		p := r.toolFailure(id, te)
		fmt.Printf("VIOLATION property=%s replay=%s no-failing-input-found\n", id, p)
		fmt.Printf("  tool error: %s\n", te)
		exit = 1
	}
	if nObl == 0 {
		p := r.toolFailure(id, "no obligations generated")
		fmt.Printf("VIOLATION property=%s replay=%s no-failing-input-found\n", id, p)
		exit = 1
	}
	reported := map[*KnownFinding]bool{}
	var kfReplays []any
	for _, o := range knownHits {
		for _, k := range o.Known {
			if !reported[k] {
				reported[k] = true
				fmt.Printf("KNOWN-FINDING: property=%s %s [obligation %s]\n", id, k.What, k.Obligation)
				if r.tier == "thorough" && k.Replay != "" {
					// thorough tier: the recorded demonstration is run again against the real code
					dir := filepath.Join(r.outDir(), "replay", "known-"+sanitize(k.Obligation))
					_ = os.MkdirAll(dir, 0o755)
					failed, out := r.runTemplate(o.fc, filepath.Join(r.verif, k.Replay), dir)
					kfReplays = append(kfReplays, map[string]any{"obligation": k.Obligation, "template": k.Replay, "reproduced": failed})
					if !failed {
						fmt.Printf("note: the recorded demonstration of this finding no longer fails on the real code (%s)\n", k.Replay)
						_ = out
					}
				}
			}
		}
	}
	for _, k := range mine {
		if !k.seen {
			fmt.Printf("note: known finding no longer fails: %s (%s)\n", k.Obligation, k.What)
		}
	}

	// evidence
	var asm []string
	for a := range assumptions {
		asm = append(asm, a)
	}
	var trusted []string
	trusted = append(trusted, "gocv VC generator (semantics of DESIGN.md section 3.3)", "SMT solvers z3 4.8.12, z3 5.1.0, cvc5 1.0.3")
	for c := range callees {
		if strings.Contains(c, "trusted") {
			trusted = append(trusted, "trusted contract "+c)
		} else {
			asm = append(asm, "callee contract assumed at call sites (discharged under the callee's own properties): "+c)
		}
	}
	sort.Strings(asm)
	sort.Strings(trusted)
	asm = append(asm, r.eng.standing()...)
	var kfl []string
	for k := range reported {
		kfl = append(kfl, k.Obligation+": "+k.What)
	}
	sort.Strings(kfl)
	cov := map[string]any{
		"obligations":              nObl,
		"discharged":               nDis,
		"checker_cmd":              fmt.Sprintf("/verif/bin/gocv check %s --tier %s", id, r.tier),
		"trusted_base":             trusted,
		"functions_under_contract": funcs,
		"by_backend":               byBackend,
		"solver_time_s":            round3(solverTime),
		"undischarged":             undischarged,
		"known_findings_hit":       kfl,
		"discharged_only_outside_known_finding_class": nRestricted,
		"vacuity":            map[string]any{"canaries": nCan, "canaries_reachable": nCanOK, "unreachable_returns": deadReturns, "rule": "each canary asserts false at a function entry, loop body or return and must NOT be provable"},
		"samples":            samples,
		"dropped":            droppedStatement,
		"not_decided":        r.eng.notDecided(id),
		"contract_files":     relFiles(r.eng.db.Files),
		"query_timeout_s":    r.queryTimeout(),
		"slowest_obligation": map[string]any{"obligation": slowest.name, "seconds": round3(slowest.secs), "second_pass": slowest.retried},
	}
	if len(kfReplays) > 0 {
		cov["known_finding_replays"] = kfReplays
	}
	if len(slow) > 0 {
		// obligations close to the time budget are the ones that may fail for no semantic reason on a busy machine
		sort.Strings(slow)
		cov["slow_obligations"] = slow
		for _, sl := range slow {
			fmt.Fprintln(os.Stderr, "slow:", sl)
		}
	}
	if st := r.standins(id); st != nil {
		cov["bounded_standins"] = st.report
		if st.failed > 0 {
			exit = 1
		}
	}
	ev := Evidence{PropertyID: id, Tier: r.tier, Seed: seed, Level: "proof", Coverage: cov, Assumptions: asm,
		WallS: round3(time.Since(t0).Seconds()), Violations: len(violations) + len(toolErrs)}
	if nDis == 0 {
		ev.Level = "other"
		cov["explanation"] = "no obligation was discharged in this run"
	}
	_ = os.MkdirAll(filepath.Join(r.outDir(), "evidence"), 0o755)
	data, _ := json.MarshalIndent(ev, "", " ")
	_ = os.WriteFile(filepath.Join(r.outDir(), "evidence", id+".json"), append(data, '\n'), 0o644)
	fmt.Printf("property %s: %d functions, %d obligations, %d discharged, %d known-finding, %d violations, %.1fs\n",
		id, len(frs), nObl, nDis, len(knownHits), len(violations)+len(toolErrs), time.Since(t0).Seconds())
	if r.verbose {
		r.printResults(frs, true)
	}
	return exit
}

func round3(f float64) float64 { return float64(int(f*1000+0.5)) / 1000 }

func relFiles(fs []string) []string {
	var out []string
	for _, f := range fs {
		out = append(out, f)
	}
	return out
}

var droppedStatement = []string{
	"memory reclamation / GC", "goroutine interleaving (each function verified as if run alone)",
	"sync.Pool identity (Get returns an arbitrary object of the pool's type)", "exact cap after reallocation by append",
	"unsafe string/slice aliasing beyond the call (b2s/s2b are snapshots)", "interface dispatch without a contract (havoc in skeleton mode, rejected in exact mode)",
	"recover()", "timing", "the operating system",
}

func (e *Engine) standing() []string {
	return []string{
		"machine integers: signed arithmetic is mathematical with a proved no-overflow obligation per operation (functions marked 'mode wrap' use two's-complement wrap-around instead); unsigned arithmetic wraps",
		"pointer parameters are non-nil and refer to pairwise distinct objects",
	}
}

func (e *Engine) notDecided(id string) []string {
	data, err := os.ReadFile(filepath.Join(e.verifDir, "not_decided.json"))
	if err != nil {
		return nil
	}
	m := map[string][]string{}
	if json.Unmarshal(data, &m) != nil {
		return nil
	}
	return m[id]
}

func (r *Runner) toolFailure(id, msg string) string {
	dir := filepath.Join(r.outDir(), "replay", "tool-"+id)
	_ = os.MkdirAll(dir, 0o755)
	p := filepath.Join(dir, "replay.json")
	data, _ := json.MarshalIndent(map[string]any{"property": id, "kind": "tool-error", "message": msg}, "", " ")
	_ = os.WriteFile(p, data, 0o644)
	return p
}

type standinResult struct {
	report []map[string]any
	failed int
}

func (r *Runner) standins(id string) *standinResult { return nil }
