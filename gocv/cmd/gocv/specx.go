package main

import (
	"fmt"
	"go/ast"
	"go/token"
	"go/types"
	"math/big"
	"strings"
)

// specEnv is the evaluation context of a contract expression.
type specEnv struct {
	fc        *FnCtx
	st        *State         // state in which heap/objects/ghosts are read
	old       *State         // state for old(...)
	bind      map[string]Val // explicit bindings (callee params/results, quantifier vars, spec params)
	at        token.Pos      // position for Go scope lookup (0 = function scope of fc)
	scopeNode ast.Node
	callee    *FuncContract // evaluating a callee's contract at a call site: no caller-scope lookup
	pure      bool          // inside a spec-function axiom: no state access
	entryPars bool          // parameter names denote entry values (postconditions)
	fuelVar   string        // inside a recursive spec function's axiom: name of the fuel variable
	cur       *State        // inside old(): the current state (locals keep their current values)
	keepSlice bool          // old(x) keeps the slice header (for sameSlice / rgn / off)
}

func (env *specEnv) with(name string, v Val) *specEnv {
	n := *env
	n.bind = make(map[string]Val, len(env.bind)+1)
	for k, x := range env.bind {
		n.bind[k] = x
	}
	n.bind[name] = v
	return &n
}

func (fc *FnCtx) specBool(st *State, e SExpr, env *specEnv) T {
	v := fc.specVal(st, e, env)
	b, ok := v.(VBool)
	if !ok {
		panic(unsupported(fmt.Sprintf("contract expression %s is not boolean (%T)", e, v)))
	}
	return b.T
}

func (fc *FnCtx) specVal(st *State, e SExpr, env *specEnv) Val {
	if env.st == nil {
		env.st = st
	}
	return env.eval(e)
}

func (env *specEnv) eval(e SExpr) Val {
	fc := env.fc
	switch x := e.(type) {
	case SLit:
		b, _ := new(big.Int).SetString(x.Val, 10)
		return VInt{mkBig(b)}
	case SBoolL:
		return VBool{mkBool(x.Val)}
	case SStr:
		return fc.strConst(x.Val)
	case SNil:
		return VInt{mkInt(0)}
	case SId:
		return env.ident(x.Name)
	case SOld:
		if env.old == nil {
			panic(unsupported("old() without an old state"))
		}
		n := *env
		n.st = env.old
		if n.cur == nil {
			n.cur = env.st
		}
		r := n.eval(x.X)
		if sv, ok := r.(VSlice); ok && isByteElem(sv.Elem) && !env.keepSlice {
			return n.seq(sv) // old(b): the bytes b held in the old state
		}
		return r
	case SSel:
		// package-qualified constant or error sentinel?
		if id, ok := x.X.(SId); ok {
			if v, ok := env.pkgQualified(id.Name, x.Sel); ok {
				return v
			}
		}
		base := env.eval(x.X)
		return env.field(base, x.Sel)
	case SIdx:
		base := env.eval(x.X)
		i := asInt(env.eval(x.I))
		switch b := base.(type) {
		case VStr:
			return VInt{seqAt(b, i)}
		case VCellSeq:
			return fc.decodeElem(sel(b.Arr, add(b.Off, i)), b.Elem, T{}, T{})
		case VSlice:
			if isByteElem(b.Elem) {
				return VInt{sel(sel(env.st.heap, b.Rgn), add(b.Off, i))}
			}
			return fc.eng.specElem(env, b, i)
		case VStruct:
			if c, ok := constOf(i); ok {
				v, _ := fc.structField(b, c.String(), "arr")
				return v
			}
		case VOpaque:
			if isIntMap(b.Typ) {
				// m[k] in a contract: Go's lookup (0 for an absent key or the nil map), in the state of the environment
				return VInt{fc.mapReadIn(env.st.cheap, b.ID, i)}
			}
		}
		panic(unsupported(fmt.Sprintf("contract index on %T in %s", base, e)))
	case SSlice:
		base := env.eval(x.X)
		lo := mkInt(0)
		if x.Lo != nil {
			lo = asInt(env.eval(x.Lo))
		}
		switch b := base.(type) {
		case VStr:
			hi := b.Len
			if x.Hi != nil {
				hi = asInt(env.eval(x.Hi))
			}
			return VStr{b.Arr, add(b.Off, lo), sub(hi, lo)}
		case VSlice:
			hi := b.Len
			if x.Hi != nil {
				hi = asInt(env.eval(x.Hi))
			}
			return VSlice{b.Rgn, add(b.Off, lo), sub(hi, lo), sub(b.Cap, lo), b.Elem}
		}
		panic(unsupported("contract slice of non-sequence"))
	case SUn:
		v := env.eval(x.X)
		if x.Op == "!" {
			return VBool{not(asBool(v))}
		}
		return VInt{neg(asInt(v))}
	case SBin:
		return env.binary(x)
	case SCond:
		c := asBool(env.eval(x.C))
		a := env.eval(x.A)
		b := env.eval(x.B)
		return fc.valIte(c, a, b, "cond")
	case SQuant:
		fc.nfr++
		v := T{fmt.Sprintf("%s!%d", sanitizeSym(x.Var), fc.nfr), SInt}
		lo := asInt(env.eval(x.Lo))
		hi := asInt(env.eval(x.Hi))
		if fc.expandQuant {
			// constant bounds: expand into ground instances
			lc0, ok1 := constOf(lo)
			hc0, ok2 := constOf(hi)
			if ok1 && ok2 && lc0.IsInt64() && hc0.IsInt64() {
				l, h := lc0.Int64(), hc0.Int64()
				if x.LoOpen {
					l++
				}
				if !x.HiOpen {
					h++
				}
				if h-l <= 1024 {
					var parts []T
					for i := l; i < h; i++ {
						parts = append(parts, asBool(env.with(x.Var, VInt{mkInt(i)}).eval(x.Body)))
					}
					if x.Forall {
						return VBool{and(parts...)}
					}
					return VBool{or(parts...)}
				}
			}
		}
		var lc, hc T
		if x.LoOpen {
			lc = lt(lo, v)
		} else {
			lc = le(lo, v)
		}
		if x.HiOpen {
			hc = lt(v, hi)
		} else {
			hc = le(v, hi)
		}
		fc.inQuant++
		body := asBool(env.with(x.Var, VInt{v}).eval(x.Body))
		fc.inQuant--
		full := implies(and(lc, hc), body)
		if !x.Forall {
			full = and(lc, hc, body)
		}
		// re-index over absolute cells: when the bound variable only occurs added to one slice offset X,
		// quantify over c = X + v instead, so that terms read (select A c) and match any cell term
		if nv, nb, ok := reindexQuant(v.S, full.S, fc); ok {
			if x.Forall {
				return VBool{T{fmt.Sprintf("(forall ((%s Int)) %s)", nv, nb), SBool}}
			}
			return VBool{T{fmt.Sprintf("(exists ((%s Int)) %s)", nv, nb), SBool}}
		}
		if x.Forall {
			return VBool{forallInt(v.S, full)}
		}
		return VBool{existsInt(v.S, full)}
	case SCall:
		return env.call(x)
	}
	panic(unsupported(fmt.Sprintf("contract expression %T", e)))
}

func (env *specEnv) binary(x SBin) Val {
	fc := env.fc
	switch x.Op {
	case "&&":
		return VBool{and(asBool(env.eval(x.L)), asBool(env.eval(x.R)))}
	case "||":
		return VBool{or(asBool(env.eval(x.L)), asBool(env.eval(x.R)))}
	case "==>":
		return VBool{implies(asBool(env.eval(x.L)), asBool(env.eval(x.R)))}
	case "<==>":
		return VBool{eq(asBool(env.eval(x.L)), asBool(env.eval(x.R)))}
	}
	a := env.eval(x.L)
	b := env.eval(x.R)
	switch x.Op {
	case "==", "!=":
		var r T
		_, aSeq := a.(VStr)
		_, bSeq := b.(VStr)
		if aSeq || bSeq {
			r = fc.seqEq(env.seq(a), env.seq(b))
		} else if as, ok := a.(VSlice); ok {
			if bi, ok := b.(VInt); ok && bi.T.S == "0" {
				r = eq(as.Rgn, mkInt(0))
			} else {
				r = valEq(a, b)
			}
		} else {
			fc.materializeStruct(a, 0)
			fc.materializeStruct(b, 0)
			r = valEq(a, b)
		}
		if x.Op == "!=" {
			r = not(r)
		}
		return VBool{r}
	case "<":
		return VBool{lt(asInt(a), asInt(b))}
	case "<=":
		return VBool{le(asInt(a), asInt(b))}
	case ">":
		return VBool{gt(asInt(a), asInt(b))}
	case ">=":
		return VBool{ge(asInt(a), asInt(b))}
	case "+":
		return VInt{add(asInt(a), asInt(b))}
	case "-":
		return VInt{sub(asInt(a), asInt(b))}
	case "*":
		return VInt{mul(asInt(a), asInt(b))}
	case "/":
		return VInt{idiv(asInt(a), asInt(b))}
	case "%":
		return VInt{imod(asInt(a), asInt(b))}
	case "<<":
		if c, ok := constOf(asInt(b)); ok {
			return VInt{mul(asInt(a), mkBig(pow2(uint(c.Int64()))))}
		}
	case ">>":
		if c, ok := constOf(asInt(b)); ok {
			return VInt{idiv(asInt(a), mkBig(pow2(uint(c.Int64()))))}
		}
	}
	panic(unsupported("contract operator " + x.Op))
}

func (env *specEnv) seq(v Val) VStr {
	switch x := v.(type) {
	case VStr:
		return x
	case VSlice:
		return VStr{sel(env.st.heap, x.Rgn), x.Off, x.Len}
	}
	panic(unsupported(fmt.Sprintf("sequence expected in contract, got %T", v)))
}

func (env *specEnv) field(base Val, name string) Val {
	fc := env.fc
	switch b := base.(type) {
	case VPtr:
		l := fc.ptrLoc(env.st, b)
		root := fc.load(env.st, l)
		if sv, ok := root.(VStruct); ok {
			// go through load so that a lazily materialised field is remembered in the state
			pp := promotedPath(sv.Typ, name)
			if len(pp) == 1 && fieldType(sv.Typ, name) == nil {
				return env.field(root, name)
			}
			l.path = append(append([]string{}, l.path...), pp...)
			return fc.load(env.st, l)
		}
		return env.field(root, name)
	case VStruct:
		// promoted fields through embedded structs
		if ft := fieldType(b.Typ, name); ft != nil {
			v, _ := fc.structField(b, name, "f")
			return v
		}
		if stt, ok := b.Typ.Underlying().(*types.Struct); ok {
			for i := 0; i < stt.NumFields(); i++ {
				f := stt.Field(i)
				if f.Embedded() {
					ev, _ := fc.structField(b, f.Name(), "f")
					if r := env.tryField(ev, name); r != nil {
						return r
					}
				}
			}
		}
	case VElemPtr:
		return env.field(fc.eng.specElem(env, b.S, b.Idx), name)
	}
	panic(unsupported(fmt.Sprintf("contract field .%s of %T", name, base)))
}

func (env *specEnv) tryField(base Val, name string) (r Val) {
	defer func() {
		if rec := recover(); rec != nil {
			if _, ok := rec.(unsupportedErr); ok {
				r = nil
				return
			}
			panic(rec)
		}
	}()
	return env.field(base, name)
}

func (env *specEnv) pkgQualified(pkg, name string) (Val, bool) {
	fc := env.fc
	for _, imp := range fc.pkg.Types.Imports() {
		if imp.Name() == pkg {
			o := imp.Scope().Lookup(name)
			switch ov := o.(type) {
			case *types.Const:
				return fc.constVal(ov.Val(), ov.Type()), true
			case *types.Var:
				if isErrorType(ov.Type()) {
					return VInt{mkInt(int64(fc.eng.errCode(ov)))}, true
				}
			}
		}
	}
	if pkg == "math" {
		switch name {
		case "MaxInt":
			_, hi := typeRange(fc.intBits, true)
			return VInt{mkBig(hi)}, true
		case "MinInt":
			lo, _ := typeRange(fc.intBits, true)
			return VInt{mkBig(lo)}, true
		}
	}
	return nil, false
}

func (env *specEnv) ident(name string) Val {
	fc := env.fc
	if v, ok := env.bind[name]; ok {
		return v
	}
	switch name {
	case "_i":
		// hidden index of the innermost enclosing range loop without a key variable
		if n := len(fc.rangeIdx); n > 0 {
			for _, s := range []*State{env.st, env.cur} {
				if s != nil {
					if v, ok := s.vars[fc.rangeIdx[n-1]]; ok {
						return v
					}
				}
			}
		}
		panic(unsupported("_i used outside a range loop"))
	case "MaxInt":
		_, hi := typeRange(fc.intBits, true)
		return VInt{mkBig(hi)}
	case "MinInt":
		lo, _ := typeRange(fc.intBits, true)
		return VInt{mkBig(lo)}
	case "IntSize":
		return VInt{mkInt(int64(fc.intBits))}
	}
	if env.pure {
		// constants only
		if o := fc.pkg.Types.Scope().Lookup(name); o != nil {
			if c, ok := o.(*types.Const); ok {
				return fc.constVal(c.Val(), c.Type())
			}
		}
		panic(unsupported("unbound name " + name + " in spec function"))
	}
	if v, ok := env.st.ghost[name]; ok {
		return v
	}
	if env.callee == nil {
		// entry values of parameters in postconditions
		if env.entryPars {
			if v, ok := fc.entryVars[name]; ok {
				return v
			}
		}
		// Go scope lookup
		fc.curScopeNode = env.scopeNode
		if obj := fc.lookupGo(name, env.at); obj != nil {
			switch o := obj.(type) {
			case *types.Var:
				if v, ok := env.st.vars[o]; ok {
					return v
				}
				if env.cur != nil {
					if v, ok := env.cur.vars[o]; ok {
						return v
					}
				}
				if b, ok := env.st.ghost[boxKey(o)]; ok {
					return fc.load(env.st, loc{kind: 1, obj: fc.objIndex(b), typ: o.Type()})
				}
				if o.Parent() == fc.pkg.Types.Scope() {
					return fc.globalVar(env.st, o)
				}
				if v, ok := fc.entryVars[name]; ok {
					return v
				}
				if fc.lenient && env.entryPars {
					// postcondition evaluated at a return that precedes the declaration: the variable reads as its zero value
					return fc.zeroVal(o.Type())
				}
				panic(unsupported("contract refers to variable " + name + " that has no value at this point"))
			case *types.Const:
				return fc.constVal(o.Val(), o.Type())
			}
		}
		if v, ok := fc.entryVars[name]; ok {
			return v
		}
	}
	// package-level names for callee contracts and fallbacks
	if o := fc.pkg.Types.Scope().Lookup(name); o != nil {
		switch ov := o.(type) {
		case *types.Const:
			return fc.constVal(ov.Val(), ov.Type())
		case *types.Var:
			return fc.globalVar(env.st, ov)
		}
	}
	if env.callee != nil && env.callee.Pkg != "" && env.callee.Pkg != fc.pkg.PkgPath {
		if p := fc.eng.pkgByPath[env.callee.Pkg]; p != nil {
			if o := p.Types.Scope().Lookup(name); o != nil {
				if c, ok := o.(*types.Const); ok {
					return fc.constVal(c.Val(), c.Type())
				}
				if v, ok := o.(*types.Var); ok && isErrorType(v.Type()) {
					return VInt{mkInt(int64(fc.eng.errCode(v)))}
				}
			}
		}
	}
	panic(unsupported("unbound name " + name + " in contract"))
}

// lookupGo resolves a Go identifier visible at position p inside the verified function.
func (fc *FnCtx) lookupGo(name string, p token.Pos) types.Object {
	if fc.decl == nil && fc.lit == nil {
		return nil
	}
	var scope *types.Scope
	if n := fc.curScopeNode; n != nil {
		switch n.(type) {
		case *ast.ForStmt, *ast.RangeStmt:
			scope = fc.pkg.TypesInfo.Scopes[n]
		}
	}
	if scope == nil && p.IsValid() {
		scope = fc.pkg.Types.Scope().Innermost(p)
	}
	if scope == nil {
		scope = fc.pkg.TypesInfo.Scopes[fc.declType()]
	}
	if scope == nil {
		return nil
	}
	_, o := scope.LookupParent(name, token.NoPos)
	return o
}

func (fc *FnCtx) declType() ast.Node {
	if fc.decl != nil {
		return fc.decl.Type
	}
	return fc.lit.Type
}

// ---------------------------------------------------------------------------
// calls in contracts: builtins and spec functions

func (env *specEnv) call(x SCall) Val {
	fc := env.fc
	arg := func(i int) Val { return env.eval(x.Args[i]) }
	switch x.Fn {
	case "len":
		switch v := arg(0).(type) {
		case VSlice:
			return VInt{v.Len}
		case VStr:
			return VInt{v.Len}
		case VCellSeq:
			return VInt{v.Len}
		}
		panic(unsupported("len() of non-sequence in contract"))
	case "atlock":
		// atlock(e): e in the state right after the most recent Lock of a monitored lock (where the protected fields
		// hold whatever the other threads left there); the reference point for what a critical section changed
		if env.st.lockSnap == nil {
			panic(unsupported("atlock() where no monitored lock was taken on every path"))
		}
		n := *env
		n.st = env.st.lockSnap
		if n.cur == nil {
			n.cur = env.st
		}
		return n.eval(x.Args[0])
	case "sameheap":
		// sameheap(): nothing has been written since the old state (bytes and cells)
		if env.old == nil {
			panic(unsupported("sameheap() without an old state"))
		}
		return VBool{and(eq(env.st.heap, env.old.heap), eq(env.st.cheap, env.old.cheap))}
	case "cell":
		// cell(s, i): the identity stored in cell i of a slice of cell-encoded structs (old(s): in the old state)
		ae, senv := x.Args[0], env
		if o, ok := ae.(SOld); ok && env.old != nil {
			n := *env
			n.st = env.old
			ae, senv = o.X, &n
		}
		n2 := *senv
		n2.keepSlice = true
		i := asInt(env.eval(x.Args[1]))
		switch sv := n2.eval(ae).(type) {
		case VSlice:
			return VInt{sel(sel(senv.st.cheap, sv.Rgn), add(sv.Off, i))}
		case VCellSeq:
			return VInt{sel(sv.Arr, add(sv.Off, i))}
		}
		panic(unsupported("cell() of a non-cell slice in contract"))
	case "deref":
		// deref(p): the value p points at (in the state the clause is evaluated in)
		switch pv := arg(0).(type) {
		case VPtr:
			if pv.Obj >= 0 {
				return fc.load(env.st, fc.ptrLoc(env.st, pv))
			}
		case VElemPtr:
			return fc.readElem(env.st, pv.S, pv.Idx)
		}
		panic(unsupported("deref() of a pointer without a modelled target in contract"))
	case "cap":
		if v, ok := arg(0).(VSlice); ok {
			return VInt{v.Cap}
		}
		panic(unsupported("cap() of non-slice in contract"))
	case "rgn":
		n := *env
		n.keepSlice = true
		return VInt{n.eval(x.Args[0]).(VSlice).Rgn}
	case "off":
		n := *env
		n.keepSlice = true
		switch v := n.eval(x.Args[0]).(type) {
		case VSlice:
			return VInt{v.Off}
		case VStr:
			return VInt{v.Off}
		}
	case "string", "bytes", "seq":
		return env.seq(arg(0))
	case "int", "byte", "uint":
		return arg(0)
	case "min":
		a, b := asInt(arg(0)), asInt(arg(1))
		return VInt{ite(le(a, b), a, b)}
	case "max":
		a, b := asInt(arg(0)), asInt(arg(1))
		return VInt{ite(ge(a, b), a, b)}
	case "eq":
		return VBool{fc.seqEq(env.seq(arg(0)), env.seq(arg(1)))}
	case "isnil":
		switch v := arg(0).(type) {
		case VSlice:
			return VBool{eq(v.Rgn, mkInt(0))}
		default:
			return VBool{eq(asInt(v), mkInt(0))}
		}
	case "hasPrefix":
		s, p := env.seq(arg(0)), env.seq(arg(1))
		return VBool{and(le(p.Len, s.Len), fc.seqEq(VStr{s.Arr, s.Off, p.Len}, p))}
	case "hasSuffix":
		s, p := env.seq(arg(0)), env.seq(arg(1))
		return VBool{and(le(p.Len, s.Len), fc.seqEq(VStr{s.Arr, add(s.Off, sub(s.Len, p.Len)), p.Len}, p))}
	case "sameSlice":
		n := *env
		n.keepSlice = true
		return VBool{valEq(n.eval(x.Args[0]), n.eval(x.Args[1]))}
	case "fresh":
		// fresh(r): r's region was allocated after the old state
		v := arg(0).(VSlice)
		return VBool{and(le(env.old.nextR, v.Rgn), lt(v.Rgn, env.st.nextR))}
	case "reuses":
		// reuses(r, d): r lives in d's storage (same region, start and capacity; d as of the old state) or in a fresh region
		r := arg(0).(VSlice)
		n := *env
		n.st = env.old
		n.keepSlice = true
		if n.cur == nil {
			n.cur = env.st
		}
		d := n.eval(x.Args[1]).(VSlice)
		inPlace := and(eq(r.Rgn, d.Rgn), eq(r.Off, d.Off), eq(r.Cap, d.Cap))
		realloc := and(le(env.old.nextR, r.Rgn), lt(r.Rgn, env.st.nextR), eq(r.Off, mkInt(0)))
		return VBool{and(le(r.Len, r.Cap), or(inPlace, realloc))}
	case "extends":
		// extends(r, d): r is d (as of the old state) grown by append: same prefix, in place or reallocated
		r := arg(0).(VSlice)
		n := *env
		n.st = env.old
		n.keepSlice = true
		if n.cur == nil {
			n.cur = env.st
		}
		d := n.eval(x.Args[1]).(VSlice)
		fc.nfr++
		k := T{fmt.Sprintf("k!%d", fc.nfr), SInt}
		rArr := sel(env.st.heap, r.Rgn)
		dArr := sel(env.old.heap, d.Rgn)
		prefix := forallInt(k.S, implies(inRange(k, mkInt(0), d.Len), eq(sel(rArr, add(r.Off, k)), sel(dArr, add(d.Off, k)))))
		inPlace := and(eq(r.Rgn, d.Rgn), eq(r.Off, d.Off), eq(r.Cap, d.Cap))
		// in place: cells of the region below the old end are untouched
		fc.nfr++
		k2 := T{fmt.Sprintf("k!%d", fc.nfr), SInt}
		// in place: only cells between the old end and the capacity end may have been written
		below := forallInt(k2.S, implies(or(lt(k2, add(d.Off, d.Len)), ge(k2, add(d.Off, d.Cap))), eq(sel(rArr, k2), sel(dArr, k2))))
		realloc := and(le(env.old.nextR, r.Rgn), lt(r.Rgn, env.st.nextR), eq(r.Off, mkInt(0)))
		return VBool{and(le(d.Len, r.Len), le(r.Len, r.Cap), prefix, or(and(inPlace, below), realloc))}
	case "unchanged":
		// unchanged(x): the window of slice x holds the same bytes as in the old state (x evaluated in old state)
		n := *env
		n.st = env.old
		n.keepSlice = true
		if n.cur == nil {
			n.cur = env.st
		}
		d := n.eval(x.Args[0]).(VSlice)
		fc.nfr++
		k := T{fmt.Sprintf("k!%d", fc.nfr), SInt}
		return VBool{forallInt(k.S, implies(inRange(k, mkInt(0), d.Len),
			eq(sel(sel(env.st.heap, d.Rgn), add(d.Off, k)), sel(sel(env.old.heap, d.Rgn), add(d.Off, k)))))}
	case "held":
		name := x.Args[0].String()
		if h, ok := env.st.held[name]; ok {
			return VBool{h}
		}
		return VBool{tFalse}
	}
	// spec function
	if sf, ok := fc.eng.db.Specs[x.Fn]; ok {
		if len(sf.Params) != len(x.Args) {
			panic(unsupported("spec function " + x.Fn + ": wrong number of arguments"))
		}
		var args []Val
		var cellHeap T // byte heap the nested slices of a cell-sequence argument are read in
		for i, p := range sf.Params {
			if strings.HasPrefix(p.Type, "cells:") {
				// a slice of cell-encoded structs: pass the cells of the state the argument denotes
				ae, senv := x.Args[i], env
				if o, ok := ae.(SOld); ok && env.old != nil {
					n := *env
					n.st = env.old
					ae, senv = o.X, &n
				}
				n2 := *senv
				n2.keepSlice = true
				switch sv := n2.eval(ae).(type) {
				case VSlice:
					args = append(args, VCellSeq{sel(senv.st.cheap, sv.Rgn), sv.Off, sv.Len, sv.Elem})
				case VCellSeq:
					args = append(args, sv)
				default:
					panic(unsupported("spec function " + x.Fn + ": argument " + p.Name + " is not a slice of cells"))
				}
				if cellHeap.S == "" {
					cellHeap = senv.st.heap
				}
				continue
			}
			v := arg(i)
			if p.Type == "seq" {
				v = env.seq(v)
			}
			args = append(args, v)
		}
		if !sf.Rec {
			// inline
			n := &specEnv{fc: fc, st: env.st, old: env.old, bind: map[string]Val{}, pure: true}
			for i, p := range sf.Params {
				n.bind[p.Name] = args[i]
			}
			return n.eval(sf.Body)
		}
		fc.declareSpec(sf)
		var ts []T
		for i, p := range sf.Params {
			if strings.HasPrefix(p.Type, "cells:") {
				s := args[i].(VCellSeq)
				ts = append(ts, s.Arr, s.Off, s.Len)
			} else if p.Type == "seq" {
				s := args[i].(VStr)
				ts = append(ts, s.Arr, s.Off, s.Len)
			} else if p.Type == "bool" {
				ts = append(ts, asBool(args[i]))
			} else {
				ts = append(ts, asInt(args[i]))
			}
		}
		// fuel: inside the function's own axiom the remaining fuel variable, elsewhere two unfoldings
		fuel := T{"(FS (FS FZ))", SInt}
		if env.pure && env.fuelVar != "" {
			fuel = T{env.fuelVar, SInt}
		}
		ts = append([]T{fuel}, ts...)
		if cellHeap.S != "" {
			ts = append(ts, cellHeap) // hidden last parameter: the byte heap for the nested slices
		}
		if sf.Ret == "bool" {
			return VBool{app(SBool, "spec_"+sf.Name, ts...)}
		}
		return VInt{app(SInt, "spec_"+sf.Name, ts...)}
	}
	panic(unsupported("unknown function " + x.Fn + " in contract"))
}

// declareSpec emits declaration + unfolding axiom of a recursive spec function (once per function context).
func (fc *FnCtx) declareSpec(sf *SpecFunc) {
	if fc.specDecl[sf.Name] {
		return
	}
	fc.specDecl[sf.Name] = true
	var sorts, vars, names []string
	bind := map[string]Val{}
	hasCells := false
	for _, p := range sf.Params {
		if strings.HasPrefix(p.Type, "cells:") {
			a, o, n := "p_"+p.Name+"_a", "p_"+p.Name+"_o", "p_"+p.Name+"_n"
			sorts = append(sorts, SArr.String(), "Int", "Int")
			vars = append(vars, fmt.Sprintf("(%s %s)", a, SArr), fmt.Sprintf("(%s Int)", o), fmt.Sprintf("(%s Int)", n))
			names = append(names, a, o, n)
			bind[p.Name] = VCellSeq{T{a, SArr}, T{o, SInt}, T{n, SInt}, fc.cellTypeByName(strings.TrimPrefix(p.Type, "cells:"))}
			hasCells = true
			continue
		}
		switch p.Type {
		case "seq":
			a, o, n := "p_"+p.Name+"_a", "p_"+p.Name+"_o", "p_"+p.Name+"_n"
			sorts = append(sorts, SArr.String(), "Int", "Int")
			vars = append(vars, fmt.Sprintf("(%s %s)", a, SArr), fmt.Sprintf("(%s Int)", o), fmt.Sprintf("(%s Int)", n))
			names = append(names, a, o, n)
			bind[p.Name] = VStr{T{a, SArr}, T{o, SInt}, T{n, SInt}}
		case "bool":
			sorts = append(sorts, "Bool")
			vars = append(vars, fmt.Sprintf("(p_%s Bool)", p.Name))
			names = append(names, "p_"+p.Name)
			bind[p.Name] = VBool{T{"p_" + p.Name, SBool}}
		default:
			sorts = append(sorts, "Int")
			vars = append(vars, fmt.Sprintf("(p_%s Int)", p.Name))
			names = append(names, "p_"+p.Name)
			bind[p.Name] = VInt{T{"p_" + p.Name, SInt}}
		}
	}
	ret := "Int"
	if sf.Ret == "bool" {
		ret = "Bool"
	}
	env := &specEnv{fc: fc, bind: bind, pure: true, fuelVar: "fuel"}
	if hasCells {
		// hidden last parameter: the byte heap in which the nested slices of the cells are read
		sorts = append(sorts, SHeap.String())
		vars = append(vars, fmt.Sprintf("(p__H %s)", SHeap))
		names = append(names, "p__H")
		env.st = &State{heap: T{"p__H", SHeap}, pc: tTrue}
	}
	fc.decls = append(fc.decls, fmt.Sprintf("(declare-fun spec_%s (Fuel %s) %s)", sf.Name, strings.Join(sorts, " "), ret))
	fc.inQuant++
	body := env.eval(sf.Body)
	fc.inQuant--
	var bt T
	if sf.Ret == "bool" {
		bt = asBool(body)
	} else {
		bt = asInt(body)
	}
	// fuel encoding (bounded unfolding, no matching loops):
	//   f(S(fuel), x) = body[f(fuel, .)]      and      f(S(fuel), x) = f(fuel, x)
	appl := "(spec_" + sf.Name + " (FS fuel) " + strings.Join(names, " ") + ")"
	applLow := "(spec_" + sf.Name + " fuel " + strings.Join(names, " ") + ")"
	vs := "(fuel Fuel) " + strings.Join(vars, " ")
	fc.facts = append(fc.facts, fmt.Sprintf("(forall (%s) (! (= %s %s) :pattern (%s)))", vs, appl, bt.S, appl))
	fc.facts = append(fc.facts, fmt.Sprintf("(forall (%s) (! (= %s %s) :pattern (%s)))", vs, appl, applLow, appl))
}

// specLoc resolves a modifies-clause expression to its current value and location.
func (fc *FnCtx) specLoc(st *State, e SExpr, bind map[string]Val) (Val, *loc, bool) {
	switch x := e.(type) {
	case SId:
		v, ok := bind[x.Name]
		if !ok {
			return nil, nil, false
		}
		return v, nil, true
	case SSel:
		bv, bl, ok := fc.specLoc(st, x.X, bind)
		if !ok {
			return nil, nil, false
		}
		var l loc
		switch b := bv.(type) {
		case VPtr:
			l = fc.ptrLoc(st, b)
		default:
			if bl == nil {
				return nil, nil, false
			}
			l = *bl
		}
		root := fc.load(st, loc{kind: l.kind, obj: l.obj, v: l.v, typ: l.typ})
		// promoted field: descend through the embedded struct that declares it
		if parent, ok := getPath(fc, root, l.path, "m").(VStruct); ok {
			l.path = append(append([]string{}, l.path...), promotedPath(parent.Typ, x.Sel)...)
		} else {
			l.path = append(append([]string{}, l.path...), x.Sel)
		}
		cur := getPath(fc, root, l.path, "m")
		// type of the field
		var ft types.Type
		if sv, ok := getPath(fc, root, l.path[:len(l.path)-1], "m").(VStruct); ok {
			ft = fieldType(sv.Typ, x.Sel)
		}
		l.typ = ft
		return cur, &l, true
	}
	return nil, nil, false
}
