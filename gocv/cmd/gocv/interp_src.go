package main

// interpSrc is the source of the contract evaluator that is injected (via go test -overlay) into the
// package under test when a counterexample is replayed against the real code. It interprets contract
// expressions (serialised as JSON trees) over the real Go values; integers are math/big so that
// specification arithmetic never wraps.
const interpSrc = `
import (
	"bytes"
	"encoding/json"
	"fmt"
	"math/big"
	"reflect"
)

type gocvNode struct {
	K    string      ` + "`json:\"k\"`" + `
	V    string      ` + "`json:\"v,omitempty\"`" + `
	A    []*gocvNode ` + "`json:\"a,omitempty\"`" + `
	Flag []bool      ` + "`json:\"f,omitempty\"`" + `
}

type gocvSpecFn struct {
	Params []string  ` + "`json:\"params\"`" + `
	Body   *gocvNode ` + "`json:\"body\"`" + `
}

type gocvEnv struct {
	cur, old map[string]any
	specs    map[string]*gocvSpecFn
	depth    int
}

type gocvAbort struct{ msg string }

func gocvFail(f string, a ...any) { panic(gocvAbort{fmt.Sprintf(f, a...)}) }

func gocvParse(s string) *gocvNode {
	var n gocvNode
	if err := json.Unmarshal([]byte(s), &n); err != nil {
		panic(err)
	}
	return &n
}

func gocvParseSpecs(s string) map[string]*gocvSpecFn {
	m := map[string]*gocvSpecFn{}
	if err := json.Unmarshal([]byte(s), &m); err != nil {
		panic(err)
	}
	return m
}

// gocvNorm converts Go values into the evaluator's domain: *big.Int, bool, []byte, error, nil, or reflect.Value for structs.
func gocvNorm(v any) any {
	switch x := v.(type) {
	case nil:
		return nil
	case *big.Int, bool, []byte:
		return x
	case string:
		return []byte(x)
	case error:
		return x
	case int:
		return big.NewInt(int64(x))
	case int64:
		return big.NewInt(x)
	case uint64:
		return new(big.Int).SetUint64(x)
	}
	rv := reflect.ValueOf(v)
	switch rv.Kind() {
	case reflect.Int, reflect.Int8, reflect.Int16, reflect.Int32, reflect.Int64:
		return big.NewInt(rv.Int())
	case reflect.Uint, reflect.Uint8, reflect.Uint16, reflect.Uint32, reflect.Uint64, reflect.Uintptr:
		return new(big.Int).SetUint64(rv.Uint())
	case reflect.Bool:
		return rv.Bool()
	case reflect.String:
		return []byte(rv.String())
	case reflect.Slice:
		if rv.Type().Elem().Kind() == reflect.Uint8 {
			if rv.IsNil() {
				return []byte(nil)
			}
			return rv.Bytes()
		}
		return rv
	case reflect.Ptr, reflect.Interface:
		if rv.IsNil() {
			return nil
		}
		return rv
	}
	return rv
}

func gocvInt(v any) *big.Int {
	if b, ok := v.(*big.Int); ok {
		return b
	}
	gocvFail("integer expected, got %T", v)
	return nil
}

func gocvBool(v any) bool {
	if b, ok := v.(bool); ok {
		return b
	}
	gocvFail("bool expected, got %T", v)
	return false
}

func gocvSeq(v any) []byte {
	switch x := v.(type) {
	case []byte:
		return x
	case nil:
		return nil
	}
	gocvFail("sequence expected, got %T", v)
	return nil
}

func (e *gocvEnv) lookup(name string, useOld bool) any {
	m := e.cur
	if useOld {
		m = e.old
	}
	if v, ok := m[name]; ok {
		return gocvNorm(v)
	}
	if v, ok := e.cur[name]; ok {
		return gocvNorm(v)
	}
	gocvFail("unbound name %s", name)
	return nil
}

func gocvEq(a, b any) bool {
	switch x := a.(type) {
	case *big.Int:
		if y, ok := b.(*big.Int); ok {
			return x.Cmp(y) == 0
		}
		if b == nil {
			return x.Sign() == 0
		}
	case bool:
		if y, ok := b.(bool); ok {
			return x == y
		}
	case []byte:
		switch y := b.(type) {
		case []byte:
			return bytes.Equal(x, y)
		case nil:
			return x == nil
		}
	case nil:
		switch y := b.(type) {
		case nil:
			return true
		case []byte:
			return y == nil
		case error:
			return y == nil
		case reflect.Value:
			return false
		case *big.Int:
			return y.Sign() == 0
		}
	case error:
		switch y := b.(type) {
		case error:
			return x == y
		case nil:
			return x == nil
		}
	case reflect.Value:
		if b == nil {
			return false
		}
		if y, ok := b.(reflect.Value); ok {
			return reflect.DeepEqual(x.Interface(), y.Interface())
		}
	}
	gocvFail("cannot compare %T with %T", a, b)
	return false
}

func (e *gocvEnv) eval(n *gocvNode, bound map[string]any, old bool) any {
	switch n.K {
	case "lit":
		b, _ := new(big.Int).SetString(n.V, 10)
		return b
	case "bool":
		return n.V == "true"
	case "str":
		return []byte(n.V)
	case "nil":
		return nil
	case "id":
		if v, ok := bound[n.V]; ok {
			return v
		}
		return e.lookup(n.V, old)
	case "old":
		return e.eval(n.A[0], bound, true)
	case "sel":
		base := e.eval(n.A[0], bound, old)
		rv, ok := base.(reflect.Value)
		if !ok {
			gocvFail("field %s of %T", n.V, base)
		}
		for rv.Kind() == reflect.Ptr || rv.Kind() == reflect.Interface {
			rv = rv.Elem()
		}
		f := rv.FieldByName(n.V)
		if !f.IsValid() {
			gocvFail("no field %s", n.V)
		}
		if f.CanInterface() {
			return gocvNorm(f.Interface())
		}
		// unexported field: read through an addressable copy
		cp := reflect.New(rv.Type()).Elem()
		cp.Set(rv)
		f = cp.FieldByName(n.V)
		return gocvNorm(reflect.NewAt(f.Type(), f.Addr().UnsafePointer()).Elem().Interface())
	case "idx":
		s := gocvSeq(e.eval(n.A[0], bound, old))
		i := gocvInt(e.eval(n.A[1], bound, old))
		if !i.IsInt64() || i.Int64() < 0 || i.Int64() >= int64(len(s)) {
			gocvFail("contract index out of range")
		}
		return big.NewInt(int64(s[i.Int64()]))
	case "slice":
		s := gocvSeq(e.eval(n.A[0], bound, old))
		lo, hi := int64(0), int64(len(s))
		if n.Flag[0] {
			lo = gocvInt(e.eval(n.A[1], bound, old)).Int64()
		}
		if n.Flag[1] {
			hi = gocvInt(e.eval(n.A[2], bound, old)).Int64()
		}
		if lo < 0 || hi < lo || hi > int64(len(s)) {
			gocvFail("contract slice out of range")
		}
		return s[lo:hi]
	case "un":
		x := e.eval(n.A[0], bound, old)
		if n.V == "!" {
			return !gocvBool(x)
		}
		return new(big.Int).Neg(gocvInt(x))
	case "cond":
		if gocvBool(e.eval(n.A[0], bound, old)) {
			return e.eval(n.A[1], bound, old)
		}
		return e.eval(n.A[2], bound, old)
	case "bin":
		switch n.V {
		case "&&":
			return gocvBool(e.eval(n.A[0], bound, old)) && gocvBool(e.eval(n.A[1], bound, old))
		case "||":
			return gocvBool(e.eval(n.A[0], bound, old)) || gocvBool(e.eval(n.A[1], bound, old))
		case "==>":
			return !gocvBool(e.eval(n.A[0], bound, old)) || gocvBool(e.eval(n.A[1], bound, old))
		case "<==>":
			return gocvBool(e.eval(n.A[0], bound, old)) == gocvBool(e.eval(n.A[1], bound, old))
		}
		a := e.eval(n.A[0], bound, old)
		b := e.eval(n.A[1], bound, old)
		switch n.V {
		case "==":
			return gocvEq(a, b)
		case "!=":
			return !gocvEq(a, b)
		}
		x, y := gocvInt(a), gocvInt(b)
		switch n.V {
		case "<":
			return x.Cmp(y) < 0
		case "<=":
			return x.Cmp(y) <= 0
		case ">":
			return x.Cmp(y) > 0
		case ">=":
			return x.Cmp(y) >= 0
		case "+":
			return new(big.Int).Add(x, y)
		case "-":
			return new(big.Int).Sub(x, y)
		case "*":
			return new(big.Int).Mul(x, y)
		case "/":
			if y.Sign() == 0 {
				gocvFail("division by zero in contract")
			}
			q, _ := new(big.Int).DivMod(x, y, new(big.Int)) // Euclidean, as SMT div
			return q
		case "%":
			if y.Sign() == 0 {
				gocvFail("division by zero in contract")
			}
			_, m := new(big.Int).DivMod(x, y, new(big.Int))
			return m
		case "<<":
			return new(big.Int).Lsh(x, uint(y.Int64()))
		case ">>":
			return new(big.Int).Rsh(x, uint(y.Int64()))
		}
		gocvFail("operator %s", n.V)
	case "quant":
		lo := gocvInt(e.eval(n.A[0], bound, old))
		hi := gocvInt(e.eval(n.A[1], bound, old))
		l, h := lo.Int64(), hi.Int64()
		if n.Flag[1] {
			l++
		}
		if !n.Flag[2] {
			h++
		}
		if h-l > 1<<20 {
			gocvFail("quantifier range too large to evaluate")
		}
		nb := map[string]any{}
		for k, v := range bound {
			nb[k] = v
		}
		for i := l; i < h; i++ {
			nb[n.V] = big.NewInt(i)
			r := gocvBool(e.eval(n.A[2], nb, old))
			if n.Flag[0] && !r {
				return false
			}
			if !n.Flag[0] && r {
				return true
			}
		}
		return n.Flag[0]
	case "call":
		return e.call(n, bound, old)
	}
	gocvFail("node kind %s", n.K)
	return nil
}

func (e *gocvEnv) call(n *gocvNode, bound map[string]any, old bool) any {
	arg := func(i int) any { return e.eval(n.A[i], bound, old) }
	switch n.V {
	case "len":
		return big.NewInt(int64(len(gocvSeq(arg(0)))))
	case "cap":
		return big.NewInt(int64(cap(gocvSeq(arg(0)))))
	case "string", "bytes", "seq", "int", "byte", "uint":
		return arg(0)
	case "min":
		a, b := gocvInt(arg(0)), gocvInt(arg(1))
		if a.Cmp(b) <= 0 {
			return a
		}
		return b
	case "max":
		a, b := gocvInt(arg(0)), gocvInt(arg(1))
		if a.Cmp(b) >= 0 {
			return a
		}
		return b
	case "eq":
		return bytes.Equal(gocvSeq(arg(0)), gocvSeq(arg(1)))
	case "isnil":
		return gocvEq(arg(0), nil)
	case "hasPrefix":
		return bytes.HasPrefix(gocvSeq(arg(0)), gocvSeq(arg(1)))
	case "hasSuffix":
		return bytes.HasSuffix(gocvSeq(arg(0)), gocvSeq(arg(1)))
	case "extends":
		r := gocvSeq(arg(0))
		d := gocvSeq(e.eval(n.A[1], bound, true))
		return len(r) >= len(d) && bytes.Equal(r[:len(d)], d)
	case "unchanged":
		return bytes.Equal(gocvSeq(e.eval(n.A[0], bound, false)), gocvSeq(e.eval(n.A[0], bound, true)))
	case "fresh", "sameSlice":
		return true // region identity is not observable here
	}
	sf, ok := e.specs[n.V]
	if !ok {
		gocvFail("unknown contract function %s", n.V)
	}
	e.depth++
	if e.depth > 100000 {
		gocvFail("spec recursion too deep")
	}
	nb := map[string]any{}
	for i, p := range sf.Params {
		nb[p] = arg(i)
	}
	r := e.eval(sf.Body, nb, old)
	e.depth--
	return r
}

// gocvCheck evaluates a boolean contract expression; ok=false with msg when the expression cannot be evaluated.
func gocvCheck(expr *gocvNode, specs map[string]*gocvSpecFn, cur, old map[string]any) (holds bool, evalErr string) {
	defer func() {
		if r := recover(); r != nil {
			if a, ok := r.(gocvAbort); ok {
				holds, evalErr = true, a.msg
				return
			}
			panic(r)
		}
	}()
	e := &gocvEnv{cur: cur, old: old, specs: specs}
	return gocvBool(e.eval(expr, map[string]any{}, false)), ""
}
`
