package main

import (
	"go/ast"
	"go/types"
	"sort"
	"strings"
)

// Monitor mode: a `monitor Type lockField` block names the fields a mutex protects and the invariants that hold
// whenever the mutex is free.
//
//	//@ monitor workerPool lock
//	//@   property C13
//	//@   protects workersCount ready mustStop
//	//@   inv[worker-bound] M.workersCount <= M.MaxWorkersCount
//
// In every function under contract: at X.lock.Lock() the protected fields of X are forgotten (another goroutine may have
// changed them since this one last held the lock) and the invariants are assumed; at X.lock.Unlock() the invariants
// are proved; an assignment to a protected field is an obligation that the lock is held at that point. The methods
// of Type that use the lock or assign a protected field are enumerated from the source on each run (skeleton mode)
// so that none is left out. This is the sequential (rely/guarantee) part of a lock invariant: it holds for all
// schedules provided every access to the protected fields goes through the lock, which the write obligations check
// for the functions under contract.

func (e *Engine) monitors() []*TypeInv {
	var out []*TypeInv
	for _, ti := range e.db.TypeInvs {
		if ti.Lock != "" {
			out = append(out, ti)
		}
	}
	return out
}

// expandMonitors gives every method of a monitored type that touches the lock or a protected field a contract.
func (e *Engine) expandMonitors() {
	for _, m := range e.monitors() {
		p := e.pkgByPath[m.Pkg]
		if p == nil {
			e.db.Errs = append(e.db.Errs, "monitor "+m.Type+": package not loaded")
			continue
		}
		prot := map[string]bool{}
		for _, f := range m.Fields {
			prot[f] = true
		}
		var names []string
		for _, f := range p.Syntax {
			for _, d := range f.Decls {
				fd, ok := d.(*ast.FuncDecl)
				if !ok || fd.Recv == nil || len(fd.Recv.List) == 0 || fd.Body == nil {
					continue
				}
				if recvTypeName(fd.Recv.List[0].Type) != m.Type {
					continue
				}
				uses := false
				ast.Inspect(fd.Body, func(n ast.Node) bool {
					switch x := n.(type) {
					case *ast.SelectorExpr:
						if x.Sel.Name == m.Lock {
							uses = true
						}
					case *ast.AssignStmt:
						for _, l := range x.Lhs {
							if se, ok := l.(*ast.SelectorExpr); ok && prot[se.Sel.Name] {
								uses = true
							}
						}
					case *ast.IncDecStmt:
						if se, ok := x.X.(*ast.SelectorExpr); ok && prot[se.Sel.Name] {
							uses = true
						}
					}
					return true
				})
				if !uses {
					continue
				}
				name := fd.Name.Name
				if len(m.Only) > 0 && !m.Only[name] {
					continue
				}
				if _, skip := m.Skip[name]; skip {
					continue
				}
				names = append(names, name)
			}
		}
		sort.Strings(names)
		for _, n := range names {
			key := m.Pkg + "::" + m.Type + "." + n
			ct, ok := e.db.Funcs[key]
			if !ok {
				ct = &FuncContract{Name: m.Type + "." + n, Pkg: m.Pkg, Loops: map[int]*LoopSpec{}, File: m.File, Line: m.Line, Synth: true, Skeleton: true, NoOverflow: true}
				e.db.Funcs[key] = ct
			}
			if fe := e.findFunc(m.Pkg, m.Type+"."+n); fe != nil && fe.decl != nil && fe.decl.Recv != nil && len(fe.decl.Recv.List[0].Names) > 0 {
				rn := fe.decl.Recv.List[0].Names[0].Name
				for _, sf := range m.Stable {
					ct.Stable = append(ct.Stable, rn+"."+sf)
				}
			}
			for _, pr := range m.Props {
				has := false
				for _, q := range ct.Props {
					if q == pr {
						has = true
					}
				}
				if !has {
					ct.Props = append(ct.Props, pr)
				}
			}
		}
		m.found = names
	}
}

// monitorOf finds the monitor guarding field `lock` of the (pointer to) named type of base.
func (fc *FnCtx) monitorOf(base ast.Expr, lock string) *TypeInv {
	t := fc.typeOf(base)
	if t == nil {
		return nil
	}
	if p, ok := t.Underlying().(*types.Pointer); ok {
		t = p.Elem()
	}
	tn := typeName(t)
	for _, m := range fc.eng.monitors() {
		if m.Type == tn && m.Lock == lock && m.Pkg == fc.pkg.PkgPath {
			return m
		}
	}
	return nil
}

func (fc *FnCtx) monitorInv(st *State, m *TypeInv, c *Clause, path string, at ast.Node) T {
	base, err := parseSpecExpr(path)
	if err != nil {
		panic(unsupported("monitor: cannot name " + path + " in a contract"))
	}
	ex := substSpec(c.Expr, "M", base)
	return fc.specBool(st, ex, &specEnv{fc: fc, st: st, old: fc.entry, at: at.Pos(), scopeNode: at})
}

// monitorCall interprets X.lock.Lock / Unlock / RLock / RUnlock for a monitored lock. It reports whether it did.
func (fc *FnCtx) monitorCall(st *State, c *ast.CallExpr) bool {
	sel, ok := unparen(c.Fun).(*ast.SelectorExpr)
	if !ok {
		return false
	}
	op := sel.Sel.Name
	if op != "Lock" && op != "Unlock" && op != "RLock" && op != "RUnlock" {
		return false
	}
	lockSel, ok := unparen(sel.X).(*ast.SelectorExpr)
	if !ok {
		return false
	}
	m := fc.monitorOf(lockSel.X, lockSel.Sel.Name)
	if m == nil {
		return false
	}
	path := strings.ReplaceAll(fc.src(lockSel.X), " ", "")
	key := path + "." + m.Lock
	if st.held == nil {
		st.held = map[string]T{}
	}
	switch op {
	case "Lock", "RLock":
		st.held[key] = tTrue
		foreign := false
		for _, f := range m.Fields {
			if strings.Contains(f, ".") {
				foreign = true // a field of other objects ("fsFile.readersCount"): any instance may have changed
				continue
			}
			fc.havocPath(st, path+"."+f, c)
		}
		if foreign {
			fc.havocObjects(st, false)
		}
		for _, cl := range m.Inv {
			fc.assume(st, fc.monitorInv(st, m, cl, path, c))
		}
		// a ghost named delta_<field> accumulates the net change this call makes to the field while holding the lock;
		// inside the critical section lock0_<field> names the value the field had when the lock was taken
		for _, f := range m.Fields {
			if strings.Contains(f, ".") {
				continue
			}
			if _, ok := st.ghost["delta_"+f]; ok {
				if e, err := parseSpecExpr(path + "." + f); err == nil {
					st.ghost["lock0_"+f] = fc.specVal(st, e, &specEnv{fc: fc, st: st, old: fc.entry, at: c.Pos(), scopeNode: c})
				}
			}
		}
		fc.assumptions["monitor "+m.Type+"."+m.Lock+": every access to "+strings.Join(m.Fields, ", ")+" outside the functions under contract also holds the lock"] = true
		// a ghost named locks_<lockField> counts the critical sections this call enters on that lock
		if g, ok := st.ghost["locks_"+m.Lock]; ok {
			st.ghost["locks_"+m.Lock] = VInt{fc.define(add(asInt(g), mkInt(1)), "locks")}
		}
		st.lockSnap = nil
		st.lockSnap = st.clone() // what atlock(e) refers to
	default:
		for k, cl := range m.Inv {
			pc := &Clause{Kind: "monitor", Label: cl.Label, Props: m.Props, Expr: cl.Expr, Src: cl.Src, File: m.File, Line: m.Line}
			if !fc.clauseActive(pc) {
				continue
			}
			t := fc.monitorInv(st, m, cl, path, c)
			fc.assert(st, "monitor", clauseName("monitor["+m.Type+"."+m.Lock+"]", cl, k)+"@unlock", t, c.Pos(), strings.ReplaceAll(cl.Src, "M.", path+"."))
		}
		for _, f := range m.Fields {
			if strings.Contains(f, ".") {
				continue
			}
			d, ok := st.ghost["delta_"+f]
			v0, ok0 := st.ghost["lock0_"+f]
			if !ok || !ok0 {
				continue
			}
			if e, err := parseSpecExpr(path + "." + f); err == nil {
				cur := fc.specVal(st, e, &specEnv{fc: fc, st: st, old: fc.entry, at: c.Pos(), scopeNode: c})
				st.ghost["delta_"+f] = VInt{fc.define(add(asInt(d), sub(asInt(cur), asInt(v0))), "delta")}
			}
			delete(st.ghost, "lock0_"+f)
		}
		st.held[key] = tFalse
	}
	return true
}

// monitorWrite: an assignment to a protected field needs its lock.
func (fc *FnCtx) monitorWrite(st *State, lhs ast.Expr) {
	if ix, isIx := unparen(lhs).(*ast.IndexExpr); isIx && isIntMap(fc.typeOf(ix.X)) {
		lhs = ix.X // x.m[k] = v writes the protected map x.m
	}
	se, ok := unparen(lhs).(*ast.SelectorExpr)
	if !ok || len(fc.eng.monitors()) == 0 {
		return
	}
	t := fc.typeOf(se.X)
	if t == nil {
		return
	}
	if p, ok := t.Underlying().(*types.Pointer); ok {
		t = p.Elem()
	}
	tn := typeName(t)
	for _, m := range fc.eng.monitors() {
		if m.Pkg != fc.pkg.PkgPath {
			continue
		}
		// a field of another type protected by this monitor's lock ("protects fsFile.readersCount")
		for _, f := range m.Fields {
			if f != tn+"."+se.Sel.Name {
				continue
			}
			pc := &Clause{Kind: "monitor", Label: "guarded", Props: m.Props}
			if !fc.clauseActive(pc) {
				break
			}
			h := tFalse
			for k, v := range st.held {
				if strings.HasSuffix(k, "."+m.Lock) {
					h = or(h, v)
				}
			}
			fc.assert(st, "monitor", "guarded["+f+"]", h, lhs.Pos(), "write to "+f+" with a "+m.Type+"."+m.Lock+" held")
		}
		if m.Type != tn {
			continue
		}
		if fc.decl != nil {
			if reason, skip := m.Skip[fc.decl.Name.Name]; skip {
				// listed in the monitor with its reason (e.g. the object is not shared yet): no lock needed here
				fc.assumptions["monitor "+m.Type+"."+m.Lock+": writes in "+fc.decl.Name.Name+" need no lock ("+reason+")"] = true
				continue
			}
		}
		for _, f := range m.Fields {
			if strings.Contains(f, ".") || f != se.Sel.Name {
				continue
			}
			pc := &Clause{Kind: "monitor", Label: "guarded", Props: m.Props}
			if !fc.clauseActive(pc) {
				return
			}
			key := strings.ReplaceAll(fc.src(se.X), " ", "") + "." + m.Lock
			h, ok := st.held[key]
			if !ok {
				h = tFalse
			}
			fc.assert(st, "monitor", "guarded["+m.Type+"."+f+"]", h, lhs.Pos(), "write to "+f+" with "+key+" held")
		}
	}
}

// onIndex applies an `on index S(k)` block of the contract to an element access S[k].
func (fc *FnCtx) onIndex(st *State, x *ast.IndexExpr, i T) {
	if fc.contract == nil {
		return
	}
	id, ok := unparen(x.X).(*ast.Ident)
	if !ok {
		return
	}
	for _, oc := range fc.contract.OnCalls {
		if oc.Callee != "index:"+id.Name {
			continue
		}
		bind := map[string]Val{}
		if len(oc.Params) > 0 {
			bind[oc.Params[0]] = VInt{i}
		}
		for k, cl := range oc.Requires {
			if !fc.clauseActive(cl) {
				continue
			}
			env := &specEnv{fc: fc, st: st, old: fc.entry, bind: bind, at: x.Pos(), scopeNode: x}
			t := fc.specBool(st, cl.Expr, env)
			fc.curEnv = env
			fc.assert(st, "requires", "index["+id.Name+"]."+clauseName("requires", cl, k), t, x.Pos(), cl.Src)
			fc.curEnv = nil
		}
		type upd struct {
			name string
			v    Val
		}
		var upds []upd
		for _, ef := range oc.Effects {
			if ef.Expr == nil {
				continue
			}
			upds = append(upds, upd{ef.Target, fc.specVal(st, ef.Expr, &specEnv{fc: fc, st: st, old: fc.entry, bind: bind, at: x.Pos(), scopeNode: x})})
		}
		for _, u := range upds {
			st.ghost[u.name] = u.v
		}
	}
}

// onChan applies an `on send CH` / `on recv CH` block to a channel operation on variable CH.
func (fc *FnCtx) onChan(st *State, kind string, ch ast.Expr, at ast.Node) {
	if fc.contract == nil || st == nil {
		return
	}
	name := strings.ReplaceAll(fc.src(unparen(ch)), " ", "")
	for _, oc := range fc.contract.OnCalls {
		if oc.Callee != kind+":"+name {
			continue
		}
		for k, cl := range oc.Requires {
			if !fc.clauseActive(cl) {
				continue
			}
			env := &specEnv{fc: fc, st: st, old: fc.entry, at: at.Pos(), scopeNode: at}
			t := fc.specBool(st, cl.Expr, env)
			fc.curEnv = env
			fc.assert(st, "requires", kind+"["+name+"]."+clauseName("requires", cl, k), t, at.Pos(), cl.Src)
			fc.curEnv = nil
		}
		type upd struct {
			name string
			v    Val
		}
		var upds []upd
		for _, ef := range oc.Effects {
			if ef.Expr == nil {
				continue
			}
			upds = append(upds, upd{ef.Target, fc.specVal(st, ef.Expr, &specEnv{fc: fc, st: st, old: fc.entry, at: at.Pos(), scopeNode: at})})
		}
		for _, u := range upds {
			st.ghost[u.name] = u.v
		}
	}
}
