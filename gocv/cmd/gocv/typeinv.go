package main

import (
	"go/ast"
	"go/token"
	"go/types"
	"sort"
	"strings"

	"golang.org/x/tools/go/packages"
)

// TypeInv is a data-structure invariant sweep: for every method of Type that assigns one of Fields, the
// invariant Inv (written over the placeholder F) must hold for the assigned field at return, assuming it holds
// for all listed fields on entry. The methods are enumerated from the current source on every run, so a new
// setter that forgets to establish the invariant fails without any contract having been written for it.
type TypeInv struct {
	Type    string
	Pkg     string
	Props   []string
	Fields  []string
	Stable  []string // monitor: configuration fields that no function under contract changes
	Lock    string   // monitor: name of the mutex field that protects Fields ("" = plain type invariant)
	Inv     []*Clause
	Skip    map[string]string // method -> reason (listed in the evidence as unverified mutators)
	Only    map[string]bool   // if non-empty: restrict to these methods
	Foreign map[string]string // function (not a mutator of the sweep) -> reason it may assign the fields
	File    string
	Line    int
	found   []string
}

func substSpec(e SExpr, name string, repl SExpr) SExpr {
	switch x := e.(type) {
	case nil:
		return nil
	case SId:
		if x.Name == name {
			return repl
		}
		return x
	case SSel:
		return SSel{substSpec(x.X, name, repl), x.Sel}
	case SIdx:
		return SIdx{substSpec(x.X, name, repl), substSpec(x.I, name, repl)}
	case SSlice:
		return SSlice{substSpec(x.X, name, repl), substSpec(x.Lo, name, repl), substSpec(x.Hi, name, repl)}
	case SCall:
		var as []SExpr
		for _, a := range x.Args {
			as = append(as, substSpec(a, name, repl))
		}
		return SCall{x.Fn, as}
	case SUn:
		return SUn{x.Op, substSpec(x.X, name, repl)}
	case SBin:
		return SBin{x.Op, substSpec(x.L, name, repl), substSpec(x.R, name, repl)}
	case SCond:
		return SCond{substSpec(x.C, name, repl), substSpec(x.A, name, repl), substSpec(x.B, name, repl)}
	case SQuant:
		if x.Var == name {
			return x
		}
		return SQuant{x.Forall, x.Var, substSpec(x.Lo, name, repl), substSpec(x.Hi, name, repl), x.LoOpen, x.HiOpen, substSpec(x.Body, name, repl)}
	case SOld:
		return SOld{substSpec(x.X, name, repl)}
	}
	return e
}

// expandTypeInvs synthesises (or extends) function contracts for the mutators found in the source.
func (e *Engine) expandTypeInvs() {
	e.expandMonitors()
	for _, ti := range e.db.TypeInvs {
		if ti.Lock != "" {
			continue // a monitor: handled by expandMonitors
		}
		p := e.pkgByPath[ti.Pkg]
		if p == nil {
			e.db.Errs = append(e.db.Errs, "typeinv "+ti.Type+": package not loaded")
			continue
		}
		fieldSet := map[string]bool{}
		for _, f := range ti.Fields {
			fieldSet[f] = true
		}
		var names []string
		mutators := map[string]map[string]bool{} // method -> assigned fields
		recvNames := map[string]string{}
		for _, f := range p.Syntax {
			for _, d := range f.Decls {
				fd, ok := d.(*ast.FuncDecl)
				if !ok || fd.Recv == nil || len(fd.Recv.List) == 0 || fd.Body == nil {
					continue
				}
				if recvTypeName(fd.Recv.List[0].Type) != ti.Type || len(fd.Recv.List[0].Names) == 0 {
					continue
				}
				rn := fd.Recv.List[0].Names[0].Name
				assigned := map[string]bool{}
				ast.Inspect(fd.Body, func(n ast.Node) bool {
					as, ok := n.(*ast.AssignStmt)
					if !ok {
						return true
					}
					for _, l := range as.Lhs {
						if se, ok := l.(*ast.SelectorExpr); ok {
							if id, ok := se.X.(*ast.Ident); ok && id.Name == rn && fieldSet[se.Sel.Name] {
								assigned[se.Sel.Name] = true
							}
						}
					}
					_ = token.ASSIGN
					return true
				})
				if len(assigned) == 0 {
					continue
				}
				m := fd.Name.Name
				if len(ti.Only) > 0 && !ti.Only[m] {
					continue
				}
				mutators[m] = assigned
				recvNames[m] = rn
				names = append(names, m)
			}
		}
		sort.Strings(names)
		e.encapsulation(ti, p, fieldSet)
		for _, m := range names {
			if _, skip := ti.Skip[m]; skip {
				continue
			}
			key := ti.Pkg + "::" + ti.Type + "." + m
			ct, ok := e.db.Funcs[key]
			if !ok {
				ct = &FuncContract{Name: ti.Type + "." + m, Pkg: ti.Pkg, Loops: map[int]*LoopSpec{}, File: ti.File, Line: ti.Line, Synth: true}
				e.db.Funcs[key] = ct
			}
			for _, pr := range ti.Props {
				has := false
				for _, q := range ct.Props {
					if q == pr {
						has = true
					}
				}
				if !has {
					ct.Props = append(ct.Props, pr)
				}
			}
			rn := recvNames[m]
			for _, f := range ti.Fields {
				for _, c := range ti.Inv {
					ex := substSpec(c.Expr, "F", SSel{SId{rn}, f})
					lbl := c.Label
					if lbl == "" {
						lbl = "inv"
					}
					cl := &Clause{Kind: "requires", Label: lbl + ":" + f, Props: ti.Props, Expr: ex, Src: strings.ReplaceAll(c.Src, "F", rn+"."+f), File: ti.File, Line: ti.Line}
					ct.Requires = append(ct.Requires, cl)
					if mutators[m][f] {
						en := *cl
						en.Kind = "ensures"
						ct.Ensures = append(ct.Ensures, &en)
					}
				}
			}
		}
		ti.found = names
		// every other method of the type that is under contract may rely on the invariant at entry
		isMut := map[string]bool{}
		for _, m := range names {
			isMut[m] = true
		}
		var keys []string
		for k := range e.db.Funcs {
			keys = append(keys, k)
		}
		sort.Strings(keys)
		for _, k := range keys {
			ct := e.db.Funcs[k]
			if ct.Pkg != ti.Pkg || ct.Trusted || ct.Lemma || !strings.HasPrefix(ct.Name, ti.Type+".") {
				continue
			}
			m := strings.TrimPrefix(ct.Name, ti.Type+".")
			if isMut[m] || strings.Contains(m, "$") {
				continue
			}
			fe := e.findFunc(ct.Pkg, ct.Name)
			if fe == nil || fe.decl == nil || fe.decl.Recv == nil || len(fe.decl.Recv.List) == 0 || len(fe.decl.Recv.List[0].Names) == 0 {
				continue
			}
			rn := fe.decl.Recv.List[0].Names[0].Name
			for _, f := range ti.Fields {
				for _, c := range ti.Inv {
					lbl := c.Label
					if lbl == "" {
						lbl = "inv"
					}
					ct.Requires = append(ct.Requires, &Clause{Kind: "requires", Label: lbl + ":" + f, Props: ti.Props,
						Expr: substSpec(c.Expr, "F", SSel{SId{rn}, f}), Src: strings.ReplaceAll(c.Src, "F", rn+"."+f), File: ti.File, Line: ti.Line})
				}
			}
		}
	}
}

// encapsulation: the sweep proves the invariant for the methods of Type that assign a field through their receiver.
// Any other assignment to such a field -- in a function of another type, or to another instance -- bypasses it. Every
// such site found in the current source becomes a clause of a synthetic lemma `encapsulation_<Type>`: true when the
// enclosing function is listed under `foreign`/`skip` with a reason, false otherwise. Decided structurally.
func (e *Engine) encapsulation(ti *TypeInv, p *packages.Package, fieldSet map[string]bool) {
	type site struct{ fn, field string }
	seen := map[site]bool{}
	var sites []site
	for _, f := range p.Syntax {
		for _, d := range f.Decls {
			fd, ok := d.(*ast.FuncDecl)
			if !ok || fd.Body == nil {
				continue
			}
			fname := fd.Name.Name
			rn := ""
			isMethodOfT := false
			if fd.Recv != nil && len(fd.Recv.List) > 0 {
				rt := recvTypeName(fd.Recv.List[0].Type)
				fname = rt + "." + fname
				if rt == ti.Type {
					isMethodOfT = true
					if len(fd.Recv.List[0].Names) > 0 {
						rn = fd.Recv.List[0].Names[0].Name
					}
				}
			}
			ast.Inspect(fd.Body, func(n ast.Node) bool {
				as, ok := n.(*ast.AssignStmt)
				if !ok {
					return true
				}
				for _, l := range as.Lhs {
					se, ok := l.(*ast.SelectorExpr)
					if !ok || !fieldSet[se.Sel.Name] {
						continue
					}
					tv, ok := p.TypesInfo.Types[se.X]
					if !ok || tv.Type == nil {
						continue
					}
					t := tv.Type
					if pt, ok := t.Underlying().(*types.Pointer); ok {
						t = pt.Elem()
					}
					if typeName(t) != ti.Type {
						continue
					}
					if id, ok := se.X.(*ast.Ident); ok && isMethodOfT && id.Name == rn {
						continue // a mutator of the sweep (or a skipped one, listed with its reason)
					}
					s := site{fname, se.Sel.Name}
					if !seen[s] {
						seen[s] = true
						sites = append(sites, s)
					}
				}
				return true
			})
		}
	}
	sort.Slice(sites, func(i, j int) bool {
		if sites[i].fn != sites[j].fn {
			return sites[i].fn < sites[j].fn
		}
		return sites[i].field < sites[j].field
	})
	name := "lemma:encapsulation_" + ti.Type
	ct := &FuncContract{Name: name, Pkg: ti.Pkg, Loops: map[int]*LoopSpec{}, File: ti.File, Line: ti.Line, Synth: true, Props: ti.Props, Lemma: true}
	for _, s := range sites {
		_, okF := ti.Foreign[s.fn]
		short := s.fn
		if k := strings.LastIndex(short, "."); k >= 0 {
			short = short[k+1:]
		}
		_, okS := ti.Skip[short]
		ct.Ensures = append(ct.Ensures, &Clause{Kind: "ensures", Label: "only-the-proved-setters-assign:" + s.fn + "." + s.field,
			Expr: SBoolL{okF || okS}, Src: "field " + ti.Type + "." + s.field + " is assigned in " + s.fn + ", which is neither a setter proved by the typeinv sweep nor listed `foreign` with a reason",
			File: ti.File, Line: ti.Line})
	}
	if len(ct.Ensures) > 0 {
		e.db.Funcs[ti.Pkg+"::"+name] = ct
	}
}
