package main

import (
	"fmt"
	"go/ast"
	"go/types"
)

// Integer maps (map[K]V with K, V integer types), skeleton mode only.
//
// A map value is an identity (VOpaque, 0 for nil). Its contents live in the cell heap (State.cheap, the heap that also
// holds cell-encoded slice elements) under two negative region numbers that no slice uses:
//
//	-(2*id)     key -> value
//	-(2*id)-1   key -> 1 if present, 0 if absent
//
// so merging, loop-head havoc and the "unknown call may have written anything" rule are those of that heap.
// m[k] reads 0 for an absent key and for the nil map; m[k] = v on the nil map panics in Go and is asserted non-nil when
// safety obligations are on. make(map) yields an identity whose presence region is all zero. len(m) and range are
// not modelled (unknown). Contracts may write m[k] (lookup semantics) and old(m[k]).

func isIntMap(t types.Type) bool {
	if t == nil {
		return false
	}
	m, ok := t.Underlying().(*types.Map)
	if !ok {
		return false
	}
	isInt := func(t types.Type) bool {
		b, ok := t.Underlying().(*types.Basic)
		return ok && b.Info()&types.IsInteger != 0
	}
	return isInt(m.Key()) && isInt(m.Elem())
}

func mapRegions(id T) (vr, pr T) {
	vr = sub(mkInt(0), mul(mkInt(2), id))
	pr = sub(vr, mkInt(1))
	return
}

func (fc *FnCtx) mapPresentIn(heap T, id, k T) T {
	_, pr := mapRegions(id)
	return and(neq(id, mkInt(0)), neq(sel(sel(heap, pr), k), mkInt(0)))
}

func (fc *FnCtx) mapReadIn(heap T, id, k T) T {
	vr, _ := mapRegions(id)
	return ite(fc.mapPresentIn(heap, id, k), sel(sel(heap, vr), k), mkInt(0))
}

func (fc *FnCtx) mapRead(st *State, m VOpaque, k T) Val {
	fc.assumptions["integer maps are modelled as total functions key -> (present, value) per map identity; distinct map identities do not share entries; len() and range over maps are not modelled"] = true
	v := fc.define(fc.mapReadIn(st.cheap, m.ID, k), "mv")
	if mt, ok := m.Typ.Underlying().(*types.Map); ok {
		fc.axiom(fc.rangeFact(v, mt.Elem())) // stored values are values of the element type
	}
	return VInt{v}
}

func (fc *FnCtx) mapWrite(st *State, m VOpaque, k T, v T) {
	if fc.safetyActive() {
		fc.assert(st, "no-panic", "no-panic[assignment to entry in nil map]", neq(m.ID, mkInt(0)), fc.curPos, "")
	} else {
		fc.assume(st, neq(m.ID, mkInt(0)))
	}
	vr, pr := mapRegions(m.ID)
	h := store(st.cheap, vr, store(sel(st.cheap, vr), k, v))
	h = store(h, pr, store(sel(h, pr), k, mkInt(1)))
	st.cheap = fc.define(h, "C")
}

func (fc *FnCtx) mapDelete(st *State, m VOpaque, k T) {
	_, pr := mapRegions(m.ID)
	// delete on a nil map is a no-op; with id 0 the presence region is never consulted (lookups test id != 0 first)
	st.cheap = fc.define(store(st.cheap, pr, store(sel(st.cheap, pr), k, mkInt(0))), "C")
}

func (fc *FnCtx) mapMake(st *State, t types.Type) Val {
	id := fc.fresh("map", SInt)
	fc.axiom(lt(mkInt(0), id))
	_, pr := mapRegions(id)
	fc.nfr++
	k := T{fmt.Sprintf("k!%d", fc.nfr), SInt}
	fc.assume(st, forallInt(k.S, eq(sel(sel(st.cheap, pr), k), mkInt(0)), sel(sel(st.cheap, pr), k)))
	return VOpaque{id, t}
}

// usesIntMaps: does the function body index, assign or delete entries of an integer map?
func (fc *FnCtx) usesIntMaps() bool {
	if fc.decl == nil || fc.decl.Body == nil {
		return false
	}
	found := false
	ast.Inspect(fc.decl.Body, func(n ast.Node) bool {
		if found {
			return false
		}
		switch x := n.(type) {
		case *ast.IndexExpr:
			if tv, ok := fc.pkg.TypesInfo.Types[x.X]; ok && isIntMap(tv.Type) {
				found = true
			}
		case *ast.CallExpr:
			if id, ok := x.Fun.(*ast.Ident); ok && (id.Name == "delete" || id.Name == "clear") && len(x.Args) > 0 {
				if tv, ok := fc.pkg.TypesInfo.Types[x.Args[0]]; ok && isIntMap(tv.Type) {
					found = true
				}
			}
		}
		return true
	})
	return found
}
