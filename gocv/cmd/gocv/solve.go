package main

import (
	"bytes"
	"context"
	"fmt"
	"os"
	"os/exec"
	"path/filepath"
	"strings"
	"sync"
	"time"
)

// Verdict of one SMT query.
type Verdict struct {
	Result  string // "unsat", "sat", "unknown", "timeout", "error"
	Solver  string
	Seconds float64
	Model   string            // raw model text when sat
	All     map[string]string // per solver raw first line
	File    string
	Retried bool // discharged only in the second, sequential pass
}

type solverDef struct {
	name string
	argv func(file string, timeoutS int) []string
}

var solvers = []solverDef{
	{"z3-5.1.0", func(f string, t int) []string { return []string{"z3-new", fmt.Sprintf("-T:%d", t), f} }},
	{"z3-4.8.12", func(f string, t int) []string { return []string{"z3", fmt.Sprintf("-T:%d", t), f} }},
	{"cvc5-1.0.3", func(f string, t int) []string {
		return []string{"cvc5", "--produce-models", fmt.Sprintf("--tlimit=%d", t*1000), f}
	}},
}

var solverSem = make(chan struct{}, 14)

// runSolvers races the solvers on the query. wantModel adds (get-model) handling.
func runSolvers(workdir, name, query string, timeoutS int, only []string) Verdict {
	file := filepath.Join(workdir, sanitize(name)+".smt2")
	_ = os.WriteFile(file, []byte(query), 0o644)
	ctx, cancel := context.WithCancel(context.Background())
	defer cancel()
	type res struct {
		solver, first, rest string
		secs                float64
	}
	use := solvers
	if len(only) > 0 {
		use = nil
		for _, s := range solvers {
			for _, o := range only {
				if strings.HasPrefix(s.name, o) {
					use = append(use, s)
				}
			}
		}
	}
	ch := make(chan res, len(use))
	var wg sync.WaitGroup
	for _, s := range use {
		wg.Add(1)
		go func(s solverDef) {
			defer wg.Done()
			solverSem <- struct{}{}
			defer func() { <-solverSem }()
			if ctx.Err() != nil {
				ch <- res{s.name, "cancelled", "", 0}
				return
			}
			argv := s.argv(file, timeoutS)
			cctx, ccancel := context.WithTimeout(ctx, time.Duration(timeoutS+2)*time.Second)
			defer ccancel()
			cmd := exec.CommandContext(cctx, argv[0], argv[1:]...)
			var out bytes.Buffer
			cmd.Stdout = &out
			cmd.Stderr = &out
			t0 := time.Now()
			_ = cmd.Run()
			secs := time.Since(t0).Seconds()
			txt := out.String()
			first, rest, _ := strings.Cut(strings.TrimSpace(txt), "\n")
			first = strings.TrimSpace(first)
			if cctx.Err() != nil && first != "sat" && first != "unsat" {
				if ctx.Err() != nil {
					first = "cancelled"
				} else {
					first = "timeout"
				}
			}
			ch <- res{s.name, first, rest, secs}
		}(s)
	}
	v := Verdict{Result: "unknown", All: map[string]string{}, File: file}
	got := 0
	for got < len(use) {
		r := <-ch
		got++
		f := r.first
		if len(f) > 80 {
			f = f[:80]
		}
		v.All[r.solver] = f
		if r.first == "unsat" || r.first == "sat" {
			if v.Result == "unsat" || v.Result == "sat" {
				if v.Result != r.first {
					v.Result = "error"
					v.Model = "solver disagreement"
				}
				continue
			}
			v.Result, v.Solver, v.Seconds, v.Model = r.first, r.solver, r.secs, r.rest
			cancel() // first definitive answer wins
		} else if v.Result != "unsat" && v.Result != "sat" {
			if r.first == "timeout" {
				v.Result = "timeout"
			}
			if r.secs > v.Seconds {
				v.Seconds = r.secs
			}
		}
	}
	wg.Wait()
	return v
}

func sanitize(s string) string {
	var sb strings.Builder
	for _, c := range s {
		switch {
		case c >= 'a' && c <= 'z', c >= 'A' && c <= 'Z', c >= '0' && c <= '9', c == '.', c == '-', c == '_':
			sb.WriteRune(c)
		default:
			sb.WriteByte('_')
		}
	}
	r := sb.String()
	if len(r) > 150 {
		r = r[:150]
	}
	return r
}
