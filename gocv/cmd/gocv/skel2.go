package main

import (
	"fmt"
	"go/ast"
	"go/token"
	"go/types"
	"os"
	"strings"
)

// specLocScoped resolves a field path whose root is a Go variable visible at node `at`
// (used by `on call ... modifies path` and by the loop-head havoc of stable fields).
func (fc *FnCtx) specLocScoped(st *State, e SExpr, at ast.Node) (Val, *loc, bool) {
	switch x := e.(type) {
	case SId:
		var pos token.Pos
		if at != nil {
			pos = at.Pos()
		}
		fc.curScopeNode = at
		obj := fc.lookupGo(x.Name, pos)
		v, ok := obj.(*types.Var)
		if !ok {
			return nil, nil, false
		}
		if val, ok := st.vars[v]; ok {
			return val, &loc{kind: 0, v: v, typ: v.Type()}, true
		}
		if ev, ok := fc.entryVars[x.Name]; ok {
			return ev, nil, true
		}
		return nil, nil, false
	case SSel:
		bv, bl, ok := fc.specLocScoped(st, x.X, at)
		if !ok {
			return nil, nil, false
		}
		var l loc
		switch b := bv.(type) {
		case VPtr:
			l = fc.ptrLoc(st, b)
		case VStruct:
			if bl == nil {
				return nil, nil, false
			}
			l = *bl
		default:
			return nil, nil, false
		}
		root := fc.load(st, loc{kind: l.kind, obj: l.obj, v: l.v, typ: l.typ})
		parent := getPath(fc, root, l.path, "m")
		sv, ok := parent.(VStruct)
		if !ok {
			return nil, nil, false
		}
		pp := promotedPath(sv.Typ, x.Sel)
		l.path = append(append([]string{}, l.path...), pp...)
		cur := getPath(fc, root, l.path, "m")
		var ft types.Type
		if psv, ok := getPath(fc, root, l.path[:len(l.path)-1], "m").(VStruct); ok {
			ft = fieldType(psv.Typ, x.Sel)
		}
		if ft == nil {
			return nil, nil, false
		}
		l.typ = ft
		return cur, &l, true
	}
	return nil, nil, false
}

// assignedPaths lists the selector paths ("ctx.hijackHandler") assigned in the given nodes, plus the paths
// listed under `modifies` of the on-call contracts of calls made there.
func (fc *FnCtx) assignedPaths(nodes ...ast.Node) []string {
	seen := map[string]bool{}
	var out []string
	add := func(p string) {
		if !seen[p] {
			seen[p] = true
			out = append(out, p)
		}
	}
	for _, n := range nodes {
		if n == nil {
			continue
		}
		ast.Inspect(n, func(m ast.Node) bool {
			switch x := m.(type) {
			case *ast.AssignStmt:
				for _, l := range x.Lhs {
					if se, ok := l.(*ast.SelectorExpr); ok {
						add(strings.ReplaceAll(fc.src(se), " ", ""))
					}
				}
			case *ast.IncDecStmt:
				if se, ok := x.X.(*ast.SelectorExpr); ok {
					add(strings.ReplaceAll(fc.src(se), " ", ""))
				}
			case *ast.CallExpr:
				if fc.contract == nil {
					return true
				}
				fc.staticRecvName = ""
				name, pkgPath, _, _, kind := fc.calleeInfo(x)
				var oc *OnCall
				if fc.staticRecvName != "" {
					oc = fc.findOnCall(fc.staticRecvName, pkgPath, kind, false, x)
				}
				if oc == nil {
					oc = fc.findOnCall(name, pkgPath, kind, false, x)
				}
				if oc != nil {
					for _, p := range oc.Modifies {
						add(p)
					}
				}
			}
			return true
		})
	}
	return out
}

// havocBoxedArgs: a call that receives the address of a boxed local may assign the local.
func (fc *FnCtx) havocBoxedArgs(st *State, args []Val) {
	boxes := map[int]bool{}
	for k, v := range st.ghost {
		if strings.HasPrefix(k, "boxed:") {
			boxes[fc.objIndex(v)] = true
		}
	}
	if len(boxes) == 0 {
		return
	}
	for _, a := range args {
		if p, ok := a.(VPtr); ok && p.Obj >= 0 && boxes[p.Obj] {
			if cur, ok := st.objs[p.Obj]; ok {
				st.objs[p.Obj] = fc.havocLike(cur, "boxed")
			}
		}
	}
	fc.assumptions["pointers to locals passed to callees are not retained beyond the call"] = true
}

// resultAtZero: does the contract say (unconditionally) that result `name` extends / reuses a slice that sits at offset 0?
func (fc *FnCtx) resultAtZero(st, pre *State, ct *FuncContract, name string, bind map[string]Val) (yes bool) {
	defer func() {
		if r := recover(); r != nil {
			if debugCalls {
				fmt.Fprintf(os.Stderr, "resultAtZero %s.%s: %v\n", ct.Name, name, r)
			}
			yes = false
		}
	}()
	var conj func(e SExpr) bool
	conj = func(e SExpr) bool {
		switch x := e.(type) {
		case SBin:
			if x.Op == "&&" {
				return conj(x.L) || conj(x.R)
			}
		case SCall:
			if (x.Fn == "extends" || x.Fn == "reuses") && len(x.Args) == 2 {
				if id, ok := x.Args[0].(SId); ok && id.Name == name {
					env := &specEnv{fc: fc, st: pre, old: pre, bind: bind, callee: ct, keepSlice: true}
					if sv, ok := env.eval(x.Args[1]).(VSlice); ok && sv.Off.S == "0" {
						return true
					}
				}
			}
		}
		return false
	}
	for _, cl := range ct.Ensures {
		if conj(cl.Expr) {
			return true
		}
	}
	return false
}
