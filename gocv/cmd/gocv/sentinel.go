package main

import (
	"go/ast"
	"go/token"
	"go/types"
)

// privateSentinels computes, for every unexported package-level error variable S, the set of functions in
// which S is *produced* (used other than as an operand of == / != or as an argument of errors.Is).
// A callee that is not among the producers of S (and contains no producer) cannot return S, because no
// code outside the package can name it. This justifies `result != S` for the results of unknown calls.
func (e *Engine) privateSentinels() map[*types.Var]map[string]bool {
	e.sentMu.Lock()
	defer e.sentMu.Unlock()
	if e.sentinels != nil {
		return e.sentinels
	}
	out := map[*types.Var]map[string]bool{}
	for _, p := range e.pkgs {
		for _, f := range p.Syntax {
			for _, d := range f.Decls {
				fd, ok := d.(*ast.FuncDecl)
				if !ok || fd.Body == nil {
					continue
				}
				name := fd.Name.Name
				if fd.Recv != nil && len(fd.Recv.List) > 0 {
					name = recvTypeName(fd.Recv.List[0].Type) + "." + name
				}
				cmpOperands := map[*ast.Ident]bool{}
				ast.Inspect(fd.Body, func(n ast.Node) bool {
					switch x := n.(type) {
					case *ast.BinaryExpr:
						if x.Op == token.EQL || x.Op == token.NEQ {
							for _, o := range []ast.Expr{x.X, x.Y} {
								if id, ok := unparen(o).(*ast.Ident); ok {
									cmpOperands[id] = true
								}
							}
						}
					case *ast.CallExpr:
						if se, ok := x.Fun.(*ast.SelectorExpr); ok && se.Sel.Name == "Is" {
							if pk, ok := se.X.(*ast.Ident); ok && pk.Name == "errors" {
								for _, a := range x.Args {
									if id, ok := unparen(a).(*ast.Ident); ok {
										cmpOperands[id] = true
									}
								}
							}
						}
					case *ast.CaseClause:
						for _, c := range x.List {
							if id, ok := unparen(c).(*ast.Ident); ok {
								cmpOperands[id] = true
							}
						}
					}
					return true
				})
				ast.Inspect(fd.Body, func(n ast.Node) bool {
					id, ok := n.(*ast.Ident)
					if !ok || cmpOperands[id] {
						return true
					}
					v, ok := p.TypesInfo.Uses[id].(*types.Var)
					if !ok || v.Pkg() == nil || v.Parent() != v.Pkg().Scope() || v.Exported() || !isErrorType(v.Type()) {
						return true
					}
					if out[v] == nil {
						out[v] = map[string]bool{}
					}
					out[v][p.PkgPath+"::"+name] = true
					return true
				})
			}
		}
	}
	e.sentinels = out
	return out
}

// excludePrivateSentinels assumes that an error returned by a call made from the function under
// verification is not one of the package-private sentinels produced only by that function itself.
func (fc *FnCtx) excludePrivateSentinels(errVal T) {
	if fc.decl == nil {
		return
	}
	self := fc.pkg.PkgPath + "::" + fc.decl.Name.Name
	if fc.decl.Recv != nil && len(fc.decl.Recv.List) > 0 {
		self = fc.pkg.PkgPath + "::" + recvTypeName(fc.decl.Recv.List[0].Type) + "." + fc.decl.Name.Name
	}
	for v, producers := range fc.eng.privateSentinels() {
		if v.Pkg() != fc.pkg.Types {
			continue
		}
		only := true
		for p := range producers {
			if p != self {
				only = false
			}
		}
		if only {
			fc.axiom(neq(errVal, mkInt(int64(fc.eng.errCode(v)))))
			fc.assumptions["errors returned by callees are never the package-private sentinel "+v.Name()+" (it is produced only inside this function)"] = true
		}
	}
}

// excludeInVal applies excludePrivateSentinels to every error-typed component of a call result.
func (fc *FnCtx) excludeInResult(v Val, t types.Type) {
	if t == nil {
		return
	}
	switch tt := t.(type) {
	case *types.Tuple:
		tup, ok := v.(VTuple)
		if !ok {
			if tt.Len() == 1 {
				fc.excludeInResult(v, tt.At(0).Type())
			}
			return
		}
		for i := 0; i < tt.Len() && i < len(tup); i++ {
			fc.excludeInResult(tup[i], tt.At(i).Type())
		}
	default:
		if isErrorType(t) {
			if iv, ok := v.(VInt); ok {
				fc.excludePrivateSentinels(iv.T)
			}
		}
	}
}

// isErrorSentinelPtr: a package-level `var ErrX = &T{...}` whose pointer type implements error. Like the errors.New
// sentinels it is taken to keep its initial (non-nil) value.
func (e *Engine) isErrorSentinelPtr(o *types.Var) bool {
	if _, ok := o.Type().Underlying().(*types.Pointer); !ok {
		return false
	}
	errT := types.Universe.Lookup("error").Type().Underlying().(*types.Interface)
	if !types.Implements(o.Type(), errT) {
		return false
	}
	init, ok := e.globInit[o]
	if !ok {
		return false
	}
	u, ok := init.(*ast.UnaryExpr)
	if !ok || u.Op != token.AND {
		return false
	}
	_, ok = u.X.(*ast.CompositeLit)
	return ok
}
