package main

import (
	"fmt"
	"go/ast"
	"go/token"
	"go/types"
	"os"
	"strings"
)

// calleeName returns the contract key name of the called function and the receiver expression (if a method).
func (fc *FnCtx) calleeInfo(c *ast.CallExpr) (name string, pkgPath string, fn *types.Func, recv ast.Expr, kind string) {
	fun := c.Fun
	for {
		if p, ok := fun.(*ast.ParenExpr); ok {
			fun = p.X
			continue
		}
		break
	}
	if ix, ok := fun.(*ast.IndexExpr); ok { // generic instantiation f[T](...)
		fun = ix.X
	}
	switch f := fun.(type) {
	case *ast.Ident:
		switch o := fc.pkg.TypesInfo.ObjectOf(f).(type) {
		case *types.Func:
			return o.Name(), pkgOf(o), o, nil, "func"
		case *types.Var:
			return "value:" + o.Name(), "", nil, nil, "value"
		}
	case *ast.SelectorExpr:
		if sel, ok := fc.pkg.TypesInfo.Selections[f]; ok {
			switch sel.Kind() {
			case types.MethodVal:
				m := sel.Obj().(*types.Func)
				rt := sel.Recv()
				if p, ok := rt.(*types.Pointer); ok {
					rt = p.Elem()
				}
				tn := typeName(rt)
				if _, isIface := sel.Recv().Underlying().(*types.Interface); isIface {
					return tn + "." + m.Name(), pkgOf(m), m, f.X, "iface"
				}
				// method may be promoted from an embedded type: use the declaring type
				if sig, ok := m.Type().(*types.Signature); ok && sig.Recv() != nil {
					drt := sig.Recv().Type()
					if p, ok := drt.(*types.Pointer); ok {
						drt = p.Elem()
					}
					if _, isIface := drt.Underlying().(*types.Interface); isIface {
						return typeName(drt) + "." + m.Name(), pkgOf(m), m, f.X, "iface"
					}
					if typeName(drt) != tn {
						fc.staticRecvName = tn + "." + m.Name() // promoted method: static receiver type
					}
					tn = typeName(drt)
				}
				return tn + "." + m.Name(), pkgOf(m), m, f.X, "method"
			case types.FieldVal:
				return "field:" + f.Sel.Name, "", nil, f.X, "value"
			}
		}
		// package-qualified function
		if o, ok := fc.pkg.TypesInfo.ObjectOf(f.Sel).(*types.Func); ok {
			return o.Name(), pkgOf(o), o, nil, "func"
		}
		if o, ok := fc.pkg.TypesInfo.ObjectOf(f.Sel).(*types.Var); ok {
			return "value:" + o.Name(), "", nil, nil, "value"
		}
	case *ast.FuncLit:
		return "funclit", "", nil, nil, "funclit"
	}
	return "unknown", "", nil, nil, "value"
}

func pkgOf(o types.Object) string {
	if o.Pkg() == nil {
		return ""
	}
	return o.Pkg().Path()
}

func typeName(t types.Type) string {
	switch x := t.(type) {
	case *types.Named:
		return x.Obj().Name()
	case *types.Alias:
		return x.Obj().Name()
	case *types.Pointer:
		return typeName(x.Elem())
	}
	return t.String()
}

// lookupContract finds a contract for a callee.
func (fc *FnCtx) lookupContract(name, pkgPath string) *FuncContract {
	db := fc.eng.db
	if c, ok := db.Funcs[pkgPath+"::"+name]; ok {
		return c
	}
	// library contracts are keyed by "pkgname.Name"
	short := pkgPath
	if k := strings.LastIndex(short, "/"); k >= 0 {
		short = short[k+1:]
	}
	if c, ok := db.Funcs[short+"."+name]; ok {
		return c
	}
	return nil
}

func (fc *FnCtx) evalCall(st *State, c *ast.CallExpr, stmt bool) Val {
	// conversion
	if tv, ok := fc.pkg.TypesInfo.Types[c.Fun]; ok && tv.IsType() {
		return fc.convert(st, c, tv.Type)
	}
	// builtin
	if id, ok := unparen(c.Fun).(*ast.Ident); ok {
		if _, isB := fc.pkg.TypesInfo.ObjectOf(id).(*types.Builtin); isB {
			return fc.evalBuiltin(st, c, id.Name)
		}
	}
	// X.lock.Lock() / Unlock() of a monitored lock
	if fc.monitorCall(st, c) {
		return VTuple{}
	}
	fc.staticRecvName = ""
	name, pkgPath, fn, recv, kind := fc.calleeInfo(c)
	staticName := fc.staticRecvName
	// b2s / s2b are identity views
	if fn != nil && pkgPath == fc.pkg.PkgPath {
		switch name {
		case "b2s":
			fc.assumptions["b2s/s2b (unsafe) are views valid while the source is unmodified"] = true
			return fc.toSeq(st, fc.eval(st, c.Args[0]))
		case "s2b":
			fc.assumptions["b2s/s2b (unsafe) are views valid while the source is unmodified"] = true
			return fc.bytesOfString(st, fc.eval(st, c.Args[0]).(VStr))
		}
	}
	// inline closure call: func(){...}()
	if kind == "funclit" {
		return fc.inlineFuncLit(st, unparen(c.Fun).(*ast.FuncLit), c.Args)
	}
	// arguments (receiver first)
	var args []Val
	var argExprs []ast.Expr
	if recv != nil && (kind == "method" || kind == "iface") {
		args = append(args, fc.evalRecv(st, recv, fn))
		argExprs = append(argExprs, recv)
	} else if recv != nil {
		fc.eval(st, c.Fun) // field holding a func value
	}
	for _, a := range c.Args {
		args = append(args, fc.eval(st, a))
		argExprs = append(argExprs, a)
	}
	if len(c.Args) == 1 {
		if tup, ok := args[len(args)-1].(VTuple); ok { // f(g()) with multi-value g
			args = append(args[:len(args)-1], tup...)
		}
	}
	var resT types.Type
	if tv, ok := fc.pkg.TypesInfo.Types[c]; ok {
		resT = tv.Type
	}
	if debugCalls {
		how := "unknown"
		if fc.findOnCall(name, pkgPath, kind, false, c) != nil {
			how = "on-call"
		} else if fc.lookupContract(name, pkgPath) != nil && fn != nil {
			how = "contract"
		} else if fc.eng.knownPure(pkgPath, name) {
			how = "pure"
		}
		fmt.Fprintf(os.Stderr, "call %-14s %s %s.%s\n", fc.pos(c.Pos()), how, pkgPath, name)
	}
	// 1. skeleton ghost effects declared by the enclosing function's contract
	if staticName != "" {
		if oc := fc.findOnCall(staticName, pkgPath, kind, false, c); oc != nil && !oc.Also {
			return fc.applyOnCall(st, oc, c, args, resT, staticName)
		}
	}
	if oc := fc.findOnCall(name, pkgPath, kind, false, c); oc != nil {
		if !oc.Also {
			return fc.applyOnCall(st, oc, c, args, resT, name)
		}
		fc.onCallRequires(st, oc, c, args, name)
		if len(oc.Effects) > 0 {
			// `also` with ghost effects: the callee's own contract (or the unknown-call rule) decides what happens to
			// the real state, the declared effects update the caller's ghosts (RHS evaluated in the pre-state, with
			// the results of the call bound)
			bind := map[string]Val{}
			for i, p := range oc.Params {
				if p != "_" && i < len(args) {
					bind[p] = args[i]
				}
			}
			pre := st.clone()
			var r Val
			if ct := fc.lookupContract(name, pkgPath); ct != nil && fn != nil {
				r = fc.applyContract(st, ct, fn, c.Pos(), args)
			} else {
				r = fc.unknownCall(st, c, name, pkgPath, fn, args, resT)
			}
			// the results of the call are visible to the effects under the names of the `-> a, b` list
			if tup, ok := r.(VTuple); ok {
				for i, rn := range oc.Results {
					if i < len(tup) && rn != "_" {
						bind[rn] = tup[i]
					}
				}
			} else if len(oc.Results) == 1 && oc.Results[0] != "_" && r != nil {
				bind[oc.Results[0]] = r
			}
			type upd struct {
				name string
				v    Val
			}
			var upds []upd
			for _, ef := range oc.Effects {
				if _, isGhost := st.ghost[ef.Target]; !isGhost {
					panic(unsupported("effect on undeclared ghost " + ef.Target))
				}
				if ef.Expr == nil {
					upds = append(upds, upd{ef.Target, fc.havocLike(st.ghost[ef.Target], "g_"+ef.Target)})
					continue
				}
				upds = append(upds, upd{ef.Target, fc.specVal(st, ef.Expr, &specEnv{fc: fc, st: pre, old: fc.entry, bind: bind, at: c.Pos(), scopeNode: c})})
			}
			for _, u := range upds {
				st.ghost[u.name] = fc.nameVal(u.v, "g_"+u.name)
			}
			return r
		}
	}
	// 2. callee contract
	if ct := fc.lookupContract(name, pkgPath); ct != nil && fn != nil {
		return fc.applyContract(st, ct, fn, c.Pos(), args)
	}
	// 3. unknown callee
	return fc.unknownCall(st, c, name, pkgPath, fn, args, resT)
}

func unparen(e ast.Expr) ast.Expr {
	for {
		p, ok := e.(*ast.ParenExpr)
		if !ok {
			return e
		}
		e = p.X
	}
}

// evalRecv evaluates a method receiver, taking its address when the method has a pointer receiver.
func (fc *FnCtx) evalRecv(st *State, recv ast.Expr, fn *types.Func) Val {
	sig := fn.Type().(*types.Signature)
	if sig.Recv() != nil {
		if _, wantPtr := sig.Recv().Type().(*types.Pointer); wantPtr {
			if _, isPtr := fc.typeOf(recv).Underlying().(*types.Pointer); !isPtr {
				if isAddressable(recv) {
					return fc.addressOfQuiet(st, recv)
				}
			}
		}
	}
	return fc.eval(st, recv)
}

func (fc *FnCtx) addressOfQuiet(st *State, e ast.Expr) (v Val) {
	defer func() {
		if r := recover(); r != nil {
			if _, ok := r.(unsupportedErr); ok && fc.lenient {
				pid := fc.fresh("addr", SInt)
				fc.axiom(lt(mkInt(0), pid))
				v = VPtr{pid, -1, fc.typeOf(e)}
				return
			}
			panic(r)
		}
	}()
	return fc.addressOf(st, e)
}

// ---------------------------------------------------------------------------
// conversions

func (fc *FnCtx) convert(st *State, c *ast.CallExpr, to types.Type) Val {
	arg := c.Args[0]
	v := fc.eval(st, arg)
	from := fc.typeOf(arg)
	switch tu := to.Underlying().(type) {
	case *types.Basic:
		if tu.Info()&types.IsString != 0 {
			switch x := v.(type) {
			case VStr:
				return x
			case VSlice:
				return fc.toSeq(st, x)
			case VInt:
				return fc.lenientFresh(c, "string(rune)")
			}
		}
		if tu.Info()&types.IsInteger != 0 {
			fbits, fsigned, fok := fc.intInfo(from)
			if !fok {
				return fc.lenientFresh(c, "conversion to integer from non-integer")
			}
			tbits, tsigned, _ := fc.intInfo(to)
			x := asInt(v)
			flo, fhi := typeRange(fbits, fsigned)
			tlo, thi := typeRange(tbits, tsigned)
			if b, ok := from.Underlying().(*types.Basic); ok && b.Info()&types.IsUntyped != 0 {
				return VInt{x}
			}
			if flo.Cmp(tlo) >= 0 && fhi.Cmp(thi) <= 0 {
				return VInt{x} // widening
			}
			// signed <-> unsigned of same width, or narrowing: Go wraps; unsigned targets wrap silently (idiom),
			// signed narrowing is an obligation unless in wrap mode.
			if !tsigned || fc.wrap || !fc.safetyActive() {
				if fbits == tbits {
					return VInt{fc.define(fc.wrapAddSub(x, tbits, tsigned), "cv")}
				}
				return VInt{fc.define(fc.wrapTo(x, tbits, tsigned), "cv")}
			}
			fc.assert(st, "overflow", "conversion["+fc.src(c)+"]", and(le(mkBig(tlo), x), le(x, mkBig(thi))), c.Pos(), "")
			return VInt{x}
		}
		if tu.Info()&types.IsFloat != 0 {
			return VOpaque{fc.fresh("float", SInt), to}
		}
	case *types.Slice:
		switch x := v.(type) {
		case VStr:
			if isByteElem(tu.Elem()) {
				return fc.bytesCopyOfString(st, x)
			}
		case VSlice:
			return VSlice{x.Rgn, x.Off, x.Len, x.Cap, tu.Elem()}
		case VInt: // nil
			return fc.zeroVal(to)
		}
	case *types.Pointer, *types.Interface, *types.Signature, *types.Struct, *types.Map:
		return fc.coerce(st, v, to)
	}
	return fc.lenientFresh(c, "conversion")
}

// bytesOfString: s2b view (shares content; modelled as a fresh region with equal content).
func (fc *FnCtx) bytesOfString(st *State, s VStr) VSlice { return fc.bytesCopyOfString(st, s) }

func (fc *FnCtx) bytesCopyOfString(st *State, s VStr) VSlice {
	r := st.nextR
	st.nextR = fc.define(add(st.nextR, mkInt(1)), "nextR")
	arr := fc.fresh("cp", SArr)
	fc.nfr++
	k := T{fmt.Sprintf("k!%d", fc.nfr), SInt}
	fc.axiom(forallInt(k.S, implies(inRange(k, mkInt(0), s.Len), eq(sel(arr, k), seqAt(s, k))), sel(arr, k)))
	st.heap = fc.define(store(st.heap, r, arr), "H")
	n := fc.define(s.Len, "n")
	return VSlice{r, mkInt(0), n, n, types.Typ[types.Uint8]}
}

// ---------------------------------------------------------------------------
// builtins

func (fc *FnCtx) evalBuiltin(st *State, c *ast.CallExpr, name string) Val {
	switch name {
	case "len", "cap":
		v := fc.eval(st, c.Args[0])
		switch x := v.(type) {
		case VSlice:
			if name == "len" {
				return VInt{x.Len}
			}
			return VInt{x.Cap}
		case VStr:
			return VInt{x.Len}
		case VStruct:
			if a, ok := x.Typ.Underlying().(*types.Array); ok {
				return VInt{mkInt(a.Len())}
			}
		}
		r := fc.lenientFresh(c, "len of "+fmt.Sprintf("%T", v))
		fc.axiom(le(mkInt(0), asInt(r)))
		return r
	case "min", "max":
		cur := asInt(fc.eval(st, c.Args[0]))
		for _, a := range c.Args[1:] {
			b := asInt(fc.eval(st, a))
			if name == "min" {
				cur = ite(le(cur, b), cur, b)
			} else {
				cur = ite(ge(cur, b), cur, b)
			}
		}
		return VInt{fc.define(cur, name)}
	case "append":
		return fc.evalAppend(st, c)
	case "copy":
		return fc.evalCopy(st, c)
	case "make":
		t := fc.typeOf(c)
		switch u := t.Underlying().(type) {
		case *types.Slice:
			n := asInt(fc.eval(st, c.Args[1]))
			cp := n
			if len(c.Args) > 2 {
				cp = asInt(fc.eval(st, c.Args[2]))
			}
			if fc.safetyActive() {
				fc.assert(st, "bounds", "make["+fc.src(c)+"]", and(le(mkInt(0), n), le(n, cp)), c.Pos(), "")
			} else {
				fc.assume(st, and(le(mkInt(0), n), le(n, cp)))
			}
			r := st.nextR
			st.nextR = fc.define(add(st.nextR, mkInt(1)), "nextR")
			if isByteElem(u.Elem()) {
				// zero-filled
				arr := fc.fresh("zeros", SArr)
				fc.nfr++
				k := T{fmt.Sprintf("k!%d", fc.nfr), SInt}
				fc.axiom(forallInt(k.S, eq(sel(arr, k), mkInt(0)), sel(arr, k)))
				st.heap = fc.define(store(st.heap, r, arr), "H")
			} else {
				fc.eng.makeGeneric(fc, st, r, u.Elem())
			}
			return VSlice{r, mkInt(0), fc.define(n, "n"), fc.define(cp, "c"), u.Elem()}
		default:
			for _, a := range c.Args[1:] {
				fc.eval(st, a)
			}
			if fc.lenient && isIntMap(t) {
				return fc.mapMake(st, t)
			}
			id := fc.fresh("make", SInt)
			fc.axiom(lt(mkInt(0), id))
			return VOpaque{id, t}
		}
	case "new":
		t := fc.typeOf(c).Underlying().(*types.Pointer).Elem()
		id := fc.newObj(st, fc.zeroVal(t))
		pid := fc.fresh("new", SInt)
		fc.axiom(lt(mkInt(0), pid))
		return VPtr{pid, id, t}
	case "panic":
		fc.execPanic(st, c)
		// an expression-context panic: the path ends; make it infeasible afterwards
		fc.assume(st, tFalse)
		return VInt{mkInt(0)}
	case "delete", "close", "clear", "print", "println":
		if name == "delete" && fc.lenient && len(c.Args) == 2 && isIntMap(fc.typeOf(c.Args[0])) {
			if mv, ok := fc.eval(st, c.Args[0]).(VOpaque); ok {
				fc.monitorWrite(st, c.Args[0])
				fc.mapDelete(st, mv, asInt(fc.eval(st, c.Args[1])))
				return VTuple{}
			}
		}
		for _, a := range c.Args {
			fc.eval(st, a)
		}
		if !fc.lenient && name != "print" && name != "println" {
			panic(unsupported("builtin " + name))
		}
		return VTuple{}
	case "recover":
		return VOpaque{fc.fresh("recovered", SInt), nil}
	}
	panic(unsupported("builtin " + name))
}

// appendBytes appends the sequence src (read in heap `from`) to dst; both outcomes of Go's append.
func (fc *FnCtx) appendSeq(st *State, dst VSlice, src VStr) VSlice {
	n := src.Len
	newLen := fc.define(add(dst.Len, n), "alen")
	inPlace := fc.define(le(newLen, dst.Cap), "inplace")
	oldHeap := st.heap
	fresh := st.nextR
	// result header
	r := VSlice{Elem: dst.Elem}
	r.Rgn = fc.define(ite(inPlace, dst.Rgn, fresh), "ar")
	r.Off = fc.define(ite(inPlace, dst.Off, mkInt(0)), "ao")
	r.Len = newLen
	capF := fc.fresh("acap", SInt)
	fc.axiom(le(newLen, capF))
	r.Cap = fc.define(ite(inPlace, dst.Cap, capF), "ac")
	st.nextR = fc.define(ite(inPlace, st.nextR, add(st.nextR, mkInt(1))), "nextR")
	// new content of the target region
	fc.frameWrite(st, inPlace, dst.Rgn, add(dst.Off, dst.Len), add(add(dst.Off, dst.Len), n), fc.curPos, "append")
	arr := fc.fresh("A", SArr)
	fc.nfr++
	k := T{fmt.Sprintf("k!%d", fc.nfr), SInt}
	base := fc.define(add(r.Off, dst.Len), "abase")
	oldTarget := sel(oldHeap, dst.Rgn)
	// in place: cells [off+len, off+len+n) = src, others as before
	// fresh:    cells [0,len) = old dst content, [len, len+n) = src
	inSrc := and(le(base, k), lt(k, add(base, n)))
	srcAt := seqAt(src, sub(k, base))
	body := ite(inSrc, srcAt,
		ite(inPlace, sel(oldTarget, k),
			sel(oldTarget, add(dst.Off, k))))
	// for the fresh case cells >= newLen are unconstrained; use implication form there
	fc.axiom(forallInt(k.S, implies(or(inPlace, and(le(mkInt(0), k), lt(k, newLen))), eq(sel(arr, k), body)), sel(arr, k)))
	st.heap = fc.define(store(oldHeap, r.Rgn, arr), "H")
	return r
}

func (fc *FnCtx) evalAppend(st *State, c *ast.CallExpr) Val {
	dv := fc.eval(st, c.Args[0])
	if iv, ok := dv.(VInt); ok && iv.T.S == "0" {
		dv = fc.zeroVal(fc.typeOf(c))
	}
	dst, ok := dv.(VSlice)
	if !ok {
		return fc.lenientFresh(c, "append to non-slice")
	}
	if !isByteElem(dst.Elem) {
		return fc.eng.appendGeneric(fc, st, c, dst)
	}
	if c.Ellipsis.IsValid() {
		sv := fc.eval(st, c.Args[1])
		return fc.appendSeq(st, dst, fc.toSeq(st, sv))
	}
	if len(c.Args) == 1 {
		return dst
	}
	// individual elements: build a small constant-length sequence
	tmp := fc.fresh("elems", SArr)
	for i, a := range c.Args[1:] {
		fc.axiom(eq(sel(tmp, mkInt(int64(i))), asInt(fc.eval(st, a))))
	}
	return fc.appendSeq(st, dst, VStr{tmp, mkInt(0), mkInt(int64(len(c.Args) - 1))})
}

func (fc *FnCtx) evalCopy(st *State, c *ast.CallExpr) Val {
	dv := fc.eval(st, c.Args[0])
	sv := fc.eval(st, c.Args[1])
	dst, ok := dv.(VSlice)
	if !ok || !isByteElem(dst.Elem) {
		if ok {
			return fc.eng.copyGeneric(fc, st, c, dst, sv)
		}
		return fc.lenientFresh(c, "copy to non-slice")
	}
	src := fc.toSeq(st, sv)
	n := fc.define(ite(le(dst.Len, src.Len), dst.Len, src.Len), "cpn")
	fc.copyInto(st, dst, src, n)
	return VInt{n}
}

// copyInto: memmove of n bytes of src (read from the current heap) to dst[0:n].
func (fc *FnCtx) copyInto(st *State, dst VSlice, src VStr, n T) {
	fc.frameWrite(st, tTrue, dst.Rgn, dst.Off, add(dst.Off, n), fc.curPos, "copy")
	old := sel(st.heap, dst.Rgn)
	arr := fc.fresh("A", SArr)
	fc.nfr++
	k := T{fmt.Sprintf("k!%d", fc.nfr), SInt}
	inDst := and(le(dst.Off, k), lt(k, add(dst.Off, n)))
	fc.axiom(forallInt(k.S, eq(sel(arr, k), ite(inDst, seqAt(src, sub(k, dst.Off)), sel(old, k))), sel(arr, k)))
	st.heap = fc.define(store(st.heap, dst.Rgn, arr), "H")
}

// ---------------------------------------------------------------------------
// contracts at call sites

// paramNames lists receiver (if any) + parameter names of fn's signature.
func sigParams(fn *types.Func) (names []string, typs []types.Type, variadic bool) {
	sig := fn.Type().(*types.Signature)
	if r := sig.Recv(); r != nil {
		n := r.Name()
		if n == "" || n == "_" {
			n = "recv"
		}
		names = append(names, n)
		typs = append(typs, r.Type())
	}
	for i := 0; i < sig.Params().Len(); i++ {
		p := sig.Params().At(i)
		n := p.Name()
		if n == "" || n == "_" {
			n = fmt.Sprintf("arg%d", i)
		}
		names = append(names, n)
		typs = append(typs, p.Type())
	}
	return names, typs, sig.Variadic()
}

func sigResults(fn *types.Func, ct *FuncContract) (names []string, typs []types.Type) {
	sig := fn.Type().(*types.Signature)
	for i := 0; i < sig.Results().Len(); i++ {
		r := sig.Results().At(i)
		n := r.Name()
		if ct != nil && i < len(ct.ResNames) {
			n = ct.ResNames[i]
		}
		if n == "" || n == "_" {
			if sig.Results().Len() == 1 {
				n = "result"
			} else {
				n = fmt.Sprintf("result%d", i)
			}
		}
		names = append(names, n)
		typs = append(typs, r.Type())
	}
	return
}

func (fc *FnCtx) applyContract(st *State, ct *FuncContract, fn *types.Func, cpos token.Pos, args []Val) Val {
	pn, pt, variadic := sigParams(fn)
	if variadic && len(args) != len(pn) {
		if !fc.lenient {
			panic(unsupported("variadic call with contract: " + fn.Name()))
		}
	}
	bind := map[string]Val{}
	for i, n := range pn {
		if i < len(args) {
			bind[n] = fc.coerce(st, args[i], pt[i])
		}
	}
	key := fn.Name()
	if ct.Name != "" {
		key = ct.Name
	}
	fc.calleeUsed[contractKeyDisplay(ct)] = true
	pre := st.clone()
	// requires
	for k, cl := range ct.Requires {
		// a callee precondition is an obligation of the caller only in the checks of the properties that own the
		// clause; a caller verified for other properties neither proves nor relies on it
		if fc.prop != "" {
			owners := cl.Props
			if len(owners) == 0 {
				owners = ct.Props
			}
			mine := len(owners) == 0 // library contracts have no owner: always checked
			for _, p := range owners {
				if p == fc.prop {
					mine = true
				}
			}
			if !mine {
				continue
			}
		}
		t := fc.specBool(st, cl.Expr, &specEnv{fc: fc, st: st, old: st, bind: bind, callee: ct})
		fc.assert(st, "requires", fmt.Sprintf("call[%s].%s", key, clauseName("requires", cl, k)), t, cpos, cl.Src)
	}
	// a callee that is entered with a monitored lock held: the caller has to hold (an instance of) that lock
	for _, h := range ct.Holds {
		suffix := h
		if k := strings.Index(h, "."); k >= 0 {
			suffix = h[k:]
		}
		cond := tFalse
		for k, v := range st.held {
			if strings.HasSuffix(k, suffix) {
				cond = or(cond, v)
			}
		}
		fc.assert(st, "monitor", fmt.Sprintf("call[%s].holds[%s]", contractKeyDisplay(ct), h), cond, cpos, "called with "+h+" held")
	}
	// effects
	fc.applyModifies(st, ct, bind, pn, pt)
	// results
	rn, rt := sigResults(fn, ct)
	var res VTuple
	for i, t := range rt {
		v := fc.freshVal(t, fn.Name()+"."+rn[i])
		bind[rn[i]] = v
		res = append(res, v)
		if sv, ok := v.(VSlice); ok {
			// `ensures extends(r, d)` / `reuses(r, d)` with d at offset 0: the result starts at offset 0 too (in place: d's
			// offset; reallocated: 0). Using the literal keeps index terms free of a symbolic offset.
			if fc.resultAtZero(st, pre, ct, rn[i], bind) {
				sv.Off = mkInt(0)
				v = sv
				bind[rn[i]] = v
				res[len(res)-1] = v
			}
			fc.axiom(lt(sv.Rgn, st.nextR))
		}
	}
	// pointer results that address a slice element
	for _, ep := range ct.ElemPtrs {
		env := &specEnv{fc: fc, st: st, old: pre, bind: bind, callee: ct, keepSlice: true}
		sv, ok := env.eval(ep.Slice).(VSlice)
		if !ok {
			panic(unsupported("elemptr " + ep.Res + ": not a slice"))
		}
		ev := VElemPtr{sv, asInt(env.eval(ep.Idx))}
		bind[ep.Res] = ev
		for i, n := range rn {
			if n == ep.Res {
				res[i] = ev
			}
		}
	}
	for _, cl := range ct.Ensures {
		if mentionsGhost(cl.Expr, ct) {
			continue // a clause over the callee's own ghost state says nothing a caller can use
		}
		t := fc.specBool(st, cl.Expr, &specEnv{fc: fc, st: st, old: pre, bind: bind, callee: ct})
		fc.assume(st, t)
	}
	if len(res) == 1 {
		return res[0]
	}
	return res
}

// mentionsGhost: does the clause refer to a ghost variable of the contract (or a monitor ghost)?
func mentionsGhost(e SExpr, ct *FuncContract) bool {
	s := " " + e.String() + " "
	for _, g := range ct.Ghosts {
		for _, pre := range []string{" ", "(", "!", "-"} {
			for _, post := range []string{" ", ")", ","} {
				if strings.Contains(s, pre+g.Name+post) {
					return true
				}
			}
		}
	}
	return strings.Contains(s, "lock0_")
}

func contractKeyDisplay(ct *FuncContract) string {
	if ct.Pkg == "" {
		return ct.Name + " (library, trusted)"
	}
	if ct.Trusted {
		return ct.Name + " (contract in the hook files, body not verified: trusted)"
	}
	return ct.Name
}

// applyModifies havocs what the callee may change.
func (fc *FnCtx) applyModifies(st *State, ct *FuncContract, bind map[string]Val, pn []string, pt []types.Type) {
	if ct.Pure {
		return
	}
	if ct.ModAll {
		if fc.frame.set && !fc.frame.all && fc.safetyActive() {
			fc.assert(st, "frame", "frame[call-modifies-everything]", tFalse, fc.curPos, "a callee that may write anything is called from a function with a modifies clause")
		}
		fc.havocHeap(st, nil)
		fc.havocObjects(st, true)
		return
	}
	explicit := len(ct.Modifies) > 0
	var rgns []T
	var wins []heapWindow
	var newRgns []T
	cellsModified := false
	defer func() {
		if cellsModified {
			// the byte buffers the elements point at are owned by the slice: writing them touches no byte region
			// the caller can name
			fc.assumptions["the key/value buffers of []argsKV entries are owned by their slice (not shared with any other slice)"] = true
		}
	}()
	for _, m := range ct.Modifies {
		v, l, ok := fc.specLoc(st, m, bind)
		if !ok {
			panic(unsupported("modifies clause " + m.String()))
		}
		switch x := v.(type) {
		case VSlice:
			if l != nil && l.kind == 1 {
				// a slice-typed field: the field itself may be reassigned and its region written
				nv := fc.freshVal(l.typ, "mod")
				fc.storeLoc(st, *l, nv)
				if isCellType(x.Elem) {
					st.cheap = fc.fresh("C", SHeap)
					cellsModified = true
				}
				if isByteElem(x.Elem) {
					rgns = append(rgns, x.Rgn)
					// the new value is the old backing array or a newly allocated one
					if ns, ok := nv.(VSlice); ok {
						fc.axiom(or(eq(ns.Rgn, x.Rgn), le(st.nextR, ns.Rgn), eq(ns.Rgn, mkInt(0))))
						newRgns = append(newRgns, ns.Rgn)
					}
				}
				break
			}
			if isCellType(x.Elem) {
				// a slice of cell-encoded structs: its cells (and the bytes its elements point at) may be rewritten
				st.cheap = fc.fresh("C", SHeap)
				cellsModified = true
				break
			}
			if !isByteElem(x.Elem) {
				break
			}
			// a slice parameter: only the cells of its capacity window [off, off+cap) may be written
			wins = append(wins, heapWindow{x.Rgn, x.Off, fc.define(add(x.Off, x.Cap), "whi")})
		case VPtr:
			if l != nil && len(l.path) > 0 {
				// a pointer-typed field: the field itself may be reassigned (and, below, what it pointed at written)
				fc.storeLoc(st, *l, fc.freshVal(l.typ, "mod"))
			}
			pl := fc.ptrLoc(st, x)
			fc.storeLoc(st, pl, fc.havocLike(fc.load(st, pl), "mod"))
		default:
			if l != nil {
				fc.storeLoc(st, *l, fc.freshVal(l.typ, "mod"))
			}
		}
	}
	if !explicit {
		// default: pointer params (incl. receiver) may be changed entirely; slices are read-only
		if fc.mapsUsed {
			st.cheap = fc.fresh("C", SHeap) // ... including the entries of integer maps they can reach
		}
		for i, n := range pn {
			if _, isPtr := pt[i].Underlying().(*types.Pointer); !isPtr {
				continue
			}
			if pv, ok := bind[n].(VPtr); ok {
				pl := fc.ptrLoc(st, pv)
				cur := fc.load(st, pl)
				fc.storeLoc(st, pl, fc.havocLike(cur, "mod"))
				// slices reachable from the object may be written too
				fc.collectRegions(cur, &rgns)
			}
		}
	}
	if len(rgns) > 0 || len(wins) > 0 {
		for _, w := range wins {
			fc.frameWrite(st, tTrue, w.rgn, w.lo, w.hi, fc.curPos, "call-modifies")
		}
		for _, r := range rgns {
			fc.frameWriteRegion(st, r, fc.curPos, "call-modifies")
		}
		fc.havocHeapWindows(st, rgns, wins)
	}
	// the callee may allocate
	nn := fc.fresh("nextR", SInt)
	fc.axiom(le(st.nextR, nn))
	st.nextR = nn
	for _, r := range newRgns {
		fc.axiom(lt(r, nn))
	}
}

func (fc *FnCtx) collectRegions(v Val, out *[]T) {
	switch x := v.(type) {
	case VSlice:
		if isByteElem(x.Elem) {
			*out = append(*out, x.Rgn)
		}
	case VStruct:
		for _, k := range sortedKeys(x.F) {
			fc.collectRegions(x.F[k], out)
		}
	}
}

// havocHeap forgets the content of the given regions (all regions when rgns == nil).
func (fc *FnCtx) havocHeap(st *State, rgns []T) {
	old := st.heap
	st.heap = fc.fresh("H", SHeap)
	if rgns == nil && (len(cellTypes) > 0 || fc.mapsUsed) {
		st.cheap = fc.fresh("C", SHeap) // "anything may have been written" includes the cells
	}
	if rgns != nil {
		fc.nfr++
		r := T{fmt.Sprintf("r!%d", fc.nfr), SInt}
		var conds []T
		for _, x := range rgns {
			conds = append(conds, neq(r, x))
		}
		fc.axiom(forallInt(r.S, implies(and(conds...), eq(sel(st.heap, r), sel(old, r))), sel(st.heap, r)))
	}
	fc.reassertConstRegions(st)
}

// unknownCall: callee without contract.
func (fc *FnCtx) unknownCall(st *State, c *ast.CallExpr, name, pkgPath string, fn *types.Func, args []Val, resT types.Type) Val {
	if !fc.lenient {
		if pure := fc.eng.knownPure(pkgPath, name); !pure {
			panic(unsupported(fmt.Sprintf("call to %s.%s without contract @%s", pkgPath, name, fc.pos(c.Pos()))))
		}
	}
	if !fc.eng.knownPure(pkgPath, name) {
		fc.havocs++
		fc.havocBoxedArgs(st, args)
		// everything reachable may change: objects (except stable fields), byte regions passed or reachable
		fc.havocObjects(st, true)
		fc.havocHeap(st, nil)
		nn := fc.fresh("nextR", SInt)
		fc.axiom(le(st.nextR, nn))
		st.nextR = nn
		fc.havocEscaped(st)
		if fc.contract != nil {
			for _, g := range fc.contract.Ghosts {
				_ = g // ghost state is only changed by declared effects
			}
		}
	}
	if resT == nil {
		return VTuple{}
	}
	if tup, ok := resT.(*types.Tuple); ok {
		if tup.Len() == 0 {
			return VTuple{}
		}
		r := fc.freshVal(tup, name)
		fc.excludeInResult(r, tup)
		return r
	}
	r := fc.freshVal(resT, name)
	fc.excludeInResult(r, resT)
	if short := pkgPath + "." + name; short == "fmt.Errorf" || short == "errors.New" {
		// a new error value: non-nil and different from every sentinel
		fc.axiom(lt(mkInt(int64(fc.eng.maxErrCode())), asInt(r)))
	}
	return r
}

// havocEscaped forgets locals whose address was taken or that closures assign.
func (fc *FnCtx) havocEscaped(st *State) {
	for o := range fc.addrTaken {
		if v, ok := o.(*types.Var); ok {
			if _, had := st.vars[v]; had {
				st.vars[v] = fc.freshVal(v.Type(), v.Name())
			}
		}
	}
}

// ---------------------------------------------------------------------------
// skeleton "on call" effects

func (fc *FnCtx) findOnCall(name, pkgPath, kind string, isGo bool, call *ast.CallExpr) *OnCall {
	if fc.contract == nil {
		return nil
	}
	short := pkgPath
	if k := strings.LastIndex(short, "/"); k >= 0 {
		short = short[k+1:]
	}
	var generic *OnCall
	for _, oc := range fc.contract.OnCalls {
		cal := oc.Callee
		if isGo != strings.HasPrefix(cal, "go:") {
			continue
		}
		cal = strings.TrimPrefix(cal, "go:")
		cal = strings.ReplaceAll(strings.ReplaceAll(cal, "(*", ""), ")", "")
		if cal != name && !(short != "" && cal == short+"."+name) {
			continue
		}
		if oc.Site > 0 {
			// "on call F#k": only the k-th call site of F in source order
			if call != nil && fc.callSite(call, cal) == oc.Site {
				return oc
			}
			continue
		}
		if generic == nil {
			generic = oc
		}
	}
	return generic
}

// callSite returns the 1-based ordinal of call among the call sites (source order) whose callee matches name.
func (fc *FnCtx) callSite(call *ast.CallExpr, name string) int {
	if fc.siteOrd == nil {
		fc.siteOrd = map[*ast.CallExpr]map[string]int{}
		counts := map[string]int{}
		ast.Inspect(fc.body, func(n ast.Node) bool {
			c, ok := n.(*ast.CallExpr)
			if !ok {
				return true
			}
			if tv, ok := fc.pkg.TypesInfo.Types[c.Fun]; ok && tv.IsType() {
				return true
			}
			saved := fc.staticRecvName
			fc.staticRecvName = ""
			nm, pp, _, _, _ := fc.calleeInfo(c)
			names := []string{nm}
			if fc.staticRecvName != "" {
				names = append(names, fc.staticRecvName)
			}
			fc.staticRecvName = saved
			sh := pp
			if k := strings.LastIndex(sh, "/"); k >= 0 {
				sh = sh[k+1:]
			}
			m := map[string]int{}
			for _, x := range names {
				for _, full := range []string{x, sh + "." + x} {
					counts[full]++
					m[full] = counts[full]
				}
			}
			fc.siteOrd[c] = m
			return true
		})
	}
	return fc.siteOrd[call][name]
}

// onCallRequires asserts the site preconditions of an `on call` block.
func (fc *FnCtx) onCallRequires(st *State, oc *OnCall, c *ast.CallExpr, args []Val, name string) {
	bind := map[string]Val{}
	for i, p := range oc.Params {
		if p == "_" || i >= len(args) {
			continue
		}
		bind[p] = args[i]
	}
	for k, cl := range oc.Requires {
		if !fc.clauseActive(cl) {
			// owned by another property: neither proved nor assumed here (a mid-path assumption could hide a
			// violation of the property being checked)
			continue
		}
		env := &specEnv{fc: fc, st: st, old: fc.entry, bind: bind, at: c.Pos(), scopeNode: c}
		t := fc.specBool(st, cl.Expr, env)
		fc.curEnv = env
		fc.assert(st, "requires", fmt.Sprintf("call[%s].%s", name, clauseName("requires", cl, k)), t, c.Pos(), cl.Src)
		fc.curEnv = nil
	}
}

func (fc *FnCtx) applyOnCall(st *State, oc *OnCall, c *ast.CallExpr, args []Val, resT types.Type, name string) Val {
	bind := map[string]Val{}
	for i, p := range oc.Params {
		if p == "_" || i >= len(args) {
			continue
		}
		bind[p] = args[i]
	}
	pre := st.clone()
	fc.onCallRequires(st, oc, c, args, name)
	// results
	var res VTuple
	if resT != nil {
		if tup, ok := resT.(*types.Tuple); ok {
			for i := 0; i < tup.Len(); i++ {
				res = append(res, fc.freshVal(tup.At(i).Type(), name))
			}
		} else {
			res = append(res, fc.freshVal(resT, name))
		}
	}
	for i, r := range oc.Results {
		if i < len(res) && r != "_" {
			bind[r] = res[i]
		}
	}
	if len(res) > 0 {
		fc.excludeInResult(res, resT)
		if len(res) == 1 {
			fc.excludeInResult(res[0], resT)
		}
	}
	if oc.Returns != nil && len(res) >= 1 {
		rv := fc.specVal(st, oc.Returns, &specEnv{fc: fc, st: st, old: pre, bind: bind, at: c.Pos(), scopeNode: c})
		fc.assume(st, valEq(res[0], rv))
	}
	// effects are simultaneous: evaluate all RHS in the pre-state
	type upd struct {
		name string
		v    Val
	}
	var upds []upd
	for _, ef := range oc.Effects {
		if _, isGhost := st.ghost[ef.Target]; !isGhost {
			panic(unsupported("effect on undeclared ghost " + ef.Target))
		}
		if ef.Expr == nil {
			upds = append(upds, upd{ef.Target, fc.havocLike(st.ghost[ef.Target], "g_"+ef.Target)})
			continue
		}
		upds = append(upds, upd{ef.Target, fc.specVal(st, ef.Expr, &specEnv{fc: fc, st: pre, old: fc.entry, bind: bind, at: c.Pos(), scopeNode: c})})
	}
	for _, u := range upds {
		st.ghost[u.name] = fc.nameVal(u.v, "g_"+u.name)
	}
	fc.havocBoxedArgs(st, args)
	if !oc.NoHavoc {
		// sound default: besides its declared ghost effects the callee may change any object field that is not
		// declared stable, and any byte region
		fc.havocObjects(st, true)
		fc.havocHeap(st, nil)
		fc.havocEscaped(st)
	}
	if oc.HeapOnly {
		fc.havocHeap(st, nil)
	}
	for _, p := range oc.Modifies {
		fc.havocPath(st, p, c)
	}
	for _, cl := range oc.Ensures {
		t := fc.specBool(st, cl.Expr, &specEnv{fc: fc, st: st, old: pre, bind: bind, at: c.Pos(), scopeNode: c})
		fc.assume(st, t)
	}
	if resT == nil || len(res) == 0 {
		return VTuple{}
	}
	if len(res) == 1 {
		return res[0]
	}
	return res
}

// ---------------------------------------------------------------------------
// go / defer / closures

func (fc *FnCtx) execGo(st *State, g *ast.GoStmt) {
	name, pkgPath, _, _, kind := fc.calleeInfo(g.Call)
	if oc := fc.findOnCall(name, pkgPath, kind, true, g.Call); oc != nil {
		var args []Val
		for _, a := range g.Call.Args {
			args = append(args, fc.eval(st, a))
		}
		fc.applyOnCall(st, oc, g.Call, args, nil, "go "+name)
		return
	}
	if !fc.lenient {
		panic(unsupported("go statement @" + fc.pos(g.Pos())))
	}
	for _, a := range g.Call.Args {
		fc.eval(st, a)
	}
}

// inlineFuncLit executes a closure body in place (used for immediately invoked and deferred closures).
func (fc *FnCtx) inlineFuncLit(st *State, fl *ast.FuncLit, args []ast.Expr) Val {
	sig := fc.typeOf(fl).(*types.Signature)
	for i := 0; i < sig.Params().Len() && i < len(args); i++ {
		st.vars[sig.Params().At(i)] = fc.eval(st, args[i])
	}
	frame := &funcFrame{inlined: true}
	for i := 0; i < sig.Results().Len(); i++ {
		frame.results = append(frame.results, sig.Results().At(i))
	}
	fc.curFn = append(fc.curFn, frame)
	savedBreak := fc.breakStk
	fc.breakStk = nil
	end := fc.execBlock(st.clone(), fl.Body.List)
	fc.breakStk = savedBreak
	fc.curFn = fc.curFn[:len(fc.curFn)-1]
	outs := append([]*State{}, frame.retSts...)
	var vals []Val
	vals = append(vals, frame.retVals...)
	if end != nil {
		outs = append(outs, end)
		if sig.Results().Len() > 0 {
			vals = append(vals, fc.zeroVal(sig.Results()))
		} else {
			vals = append(vals, VTuple{})
		}
	}
	if len(outs) == 0 {
		fc.assume(st, tFalse)
		return VTuple{}
	}
	// merge the return states back into st
	merged := outs[0]
	mv := vals[0]
	for i := 1; i < len(outs); i++ {
		c := merged.pc
		mv = fc.valIte(c, mv, vals[i], "ret")
		merged = fc.merge2(merged, outs[i])
	}
	*st = *merged
	if t, ok := mv.(VTuple); ok && len(t) == 1 {
		return t[0]
	}
	return mv
}

// runDefers executes the registered defers LIFO at a function exit.
func (fc *FnCtx) runDefers(st *State) *State {
	for i := len(fc.defers) - 1; i >= 0; i-- {
		d := fc.defers[i]
		if st == nil {
			return nil
		}
		// the defer only runs when it was registered on this path
		on, off := fc.split(st, d.pc)
		if on != nil {
			if fl, ok := unparen(d.call.Fun).(*ast.FuncLit); ok {
				fc.inlineFuncLit(on, fl, d.call.Args)
			} else {
				fc.evalCall(on, d.call, true)
			}
		}
		st = fc.mergeStates([]*State{on, off})
	}
	return st
}

// execReturn handles `return` in the verified function or an inlined closure.
func (fc *FnCtx) execReturn(st *State, r *ast.ReturnStmt) {
	if n := len(fc.curFn); n > 0 && fc.curFn[n-1].inlined {
		fr := fc.curFn[n-1]
		var v Val = VTuple{}
		if len(r.Results) == 1 {
			v = fc.eval(st, r.Results[0])
		} else if len(r.Results) > 1 {
			var t VTuple
			for _, e := range r.Results {
				t = append(t, fc.eval(st, e))
			}
			v = t
		} else if len(fr.results) > 0 {
			var t VTuple
			for _, rv := range fr.results {
				if cur, ok := st.vars[rv]; ok {
					t = append(t, cur)
				} else {
					t = append(t, fc.zeroVal(rv.Type()))
				}
			}
			v = t
		}
		fr.retSts = append(fr.retSts, st)
		fr.retVals = append(fr.retVals, v)
		return
	}
	// results
	var vals []Val
	switch {
	case len(r.Results) == 0:
		for _, rv := range fc.results {
			if cur, ok := st.vars[rv]; ok {
				vals = append(vals, cur)
			} else if b, ok := st.ghost[boxKey(rv)]; ok {
				vals = append(vals, fc.load(st, loc{kind: 1, obj: fc.objIndex(b), typ: rv.Type()}))
			} else {
				vals = append(vals, fc.zeroVal(rv.Type()))
			}
		}
	case len(r.Results) == 1 && len(fc.results) > 1:
		tup, ok := fc.eval(st, r.Results[0]).(VTuple)
		if !ok {
			panic(unsupported("return of multi-value call"))
		}
		vals = tup
	default:
		for i, e := range r.Results {
			vals = append(vals, fc.coerce(st, fc.eval(st, e), fc.results[i].Type()))
		}
	}
	fc.finishReturn(st, vals, r.Pos())
}

// finishReturn: run defers, then check postconditions.
func (fc *FnCtx) finishReturn(st *State, vals []Val, p token.Pos) {
	fc.retCount++
	// named results are visible to defers
	for i, rv := range fc.results {
		if i < len(vals) && rv.Name() != "" {
			st.vars[rv] = vals[i]
		}
	}
	st = fc.runDefers(st)
	if st == nil {
		return
	}
	for i, rv := range fc.results {
		if rv.Name() != "" && rv.Name() != "_" {
			if cur, ok := st.vars[rv]; ok && i < len(vals) {
				vals[i] = cur
			}
		}
	}
	fc.canary(st, fmt.Sprintf("canary.return%d", fc.retCount), p)
	fc.checkPost(st, vals, p)
}

var debugCalls = os.Getenv("GOCV_DEBUG") != ""
