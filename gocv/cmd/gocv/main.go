package main

import (
	"flag"
	"fmt"
	"os"
	"path/filepath"
	"sort"
	"strings"
	"sync"
	"time"
)

func main() {
	if len(os.Args) < 2 {
		fmt.Fprintln(os.Stderr, "usage: gocv check <Cxx> [--tier quick|thorough] | func <name> | list")
		os.Exit(2)
	}
	cmd := os.Args[1]
	fs := flag.NewFlagSet(cmd, flag.ExitOnError)
	tier := fs.String("tier", "quick", "quick or thorough")
	repo := fs.String("repo", "/repo", "repository root")
	verif := fs.String("verif", "/verif", "verif root")
	verbose := fs.Bool("v", false, "verbose")
	keep := fs.Bool("keep", false, "keep SMT files")
	only := fs.String("solver", "", "restrict to solver prefix (z3-5, z3-4, cvc5)")
	timeout := fs.Int("timeout", 0, "per-query timeout seconds (0 = tier default)")
	out := fs.String("out", "", "directory for evidence/ and replay/ (default: the verif root)")
	var pos []string
	args := os.Args[2:]
	for len(args) > 0 && !strings.HasPrefix(args[0], "-") {
		pos = append(pos, args[0])
		args = args[1:]
	}
	_ = fs.Parse(args)
	pos = append(pos, fs.Args()...)
	if t := os.Getenv("VERIF_TIER"); t != "" && *tier == "quick" {
		*tier = t
	}
	r := &Runner{repo: *repo, verif: *verif, tier: *tier, verbose: *verbose, keep: *keep, timeout: *timeout, out: *out}
	if *only != "" {
		r.only = strings.Split(*only, ",")
	}
	switch cmd {
	case "check":
		if len(pos) != 1 {
			fmt.Fprintln(os.Stderr, "check: need one property id")
			os.Exit(2)
		}
		os.Exit(r.checkProperty(pos[0]))
	case "func":
		os.Exit(r.checkFuncs(pos))
	case "list":
		os.Exit(r.list())
	case "selftest":
		os.Exit(r.selftest(pos))
	default:
		fmt.Fprintln(os.Stderr, "unknown command", cmd)
		os.Exit(2)
	}
}

type Runner struct {
	repo, verif, tier string
	verbose, keep     bool
	only              []string
	timeout           int
	retry             int
	eng               *Engine
	eng32             *Engine
	workdir           string
	out               string
}

func (r *Runner) load() error {
	if r.eng != nil {
		return nil
	}
	e, err := loadEngine(r.repo, filepath.Join(r.verif, "specs"), "")
	if err != nil {
		return err
	}
	r.eng = e
	e.verifDir = r.verif
	if len(e.db.Errs) > 0 {
		return fmt.Errorf("contract errors:\n  %s", strings.Join(e.db.Errs, "\n  "))
	}
	wd, err := os.MkdirTemp("", "gocv-")
	if err != nil {
		return err
	}
	r.workdir = wd
	e.workdir = wd
	return nil
}

func (r *Runner) load32() error {
	if r.eng32 != nil {
		return nil
	}
	e, err := loadEngine(r.repo, filepath.Join(r.verif, "specs"), "386")
	if err != nil {
		return err
	}
	e.workdir = r.workdir
	r.eng32 = e
	return nil
}

func (r *Runner) cleanup() {
	if r.workdir != "" && !r.keep {
		os.RemoveAll(r.workdir)
	} else if r.workdir != "" {
		fmt.Fprintln(os.Stderr, "SMT files kept in", r.workdir)
	}
}

func (r *Runner) queryTimeout() int {
	if r.timeout > 0 {
		return r.timeout
	}
	if r.tier == "thorough" {
		return 60
	}
	return 15
}

// contractsFor lists the function contracts tagged with prop ("" = all with a body in the repo).
func (r *Runner) contractsFor(prop string) []*FuncContract {
	var out []*FuncContract
	for _, ct := range r.eng.db.Funcs {
		if ct.Pkg == "" || ct.Trusted {
			continue
		}
		if prop != "" {
			has := false
			for _, p := range ct.Props {
				if p == prop {
					has = true
				}
			}
			if !has {
				continue
			}
		}
		out = append(out, ct)
	}
	sort.Slice(out, func(i, j int) bool { return out[i].Pkg+out[i].Name < out[j].Pkg+out[j].Name })
	return out
}

// generate runs the VC generator for the given contracts (both int sizes where requested).
func (r *Runner) generate(cts []*FuncContract, prop string) []*FuncResult {
	type job struct {
		ct  *FuncContract
		eng *Engine
	}
	var jobs []job
	for _, ct := range cts {
		sizes := ct.IntSizes
		if len(sizes) == 0 {
			sizes = []int{64}
		}
		for _, s := range sizes {
			if s == 32 {
				if err := r.load32(); err != nil {
					fmt.Fprintln(os.Stderr, "cannot load 32-bit view:", err)
					continue
				}
				// the contract object for the 32-bit engine
				if c32, ok := r.eng32.db.Funcs[ct.Pkg+"::"+ct.Name]; ok {
					jobs = append(jobs, job{c32, r.eng32})
				}
			} else {
				jobs = append(jobs, job{ct, r.eng})
			}
		}
	}
	results := make([]*FuncResult, len(jobs))
	var wg sync.WaitGroup
	sem := make(chan struct{}, 8)
	for i, j := range jobs {
		wg.Add(1)
		go func(i int, j job) {
			defer wg.Done()
			sem <- struct{}{}
			defer func() { <-sem }()
			results[i] = j.eng.verifyFunc(j.ct, prop)
		}(i, j)
	}
	wg.Wait()
	return results
}

// solveAll discharges all obligations in parallel.
func (r *Runner) solveAll(frs []*FuncResult) {
	var wg sync.WaitGroup
	sem := make(chan struct{}, 6)
	for _, fr := range frs {
		for _, o := range fr.Obls {
			wg.Add(1)
			go func(o *Obligation) {
				defer wg.Done()
				sem <- struct{}{}
				defer func() { <-sem }()
				r.solve(o)
			}(o)
		}
	}
	wg.Wait()
	// second chance for obligations that ran out of time while the machine was busy: alone, with three times the budget
	// (an obligation is only reported as undischarged when it also fails here)
	for _, fr := range frs {
		for _, o := range fr.Obls {
			if o.Canary || (o.Verdict.Result != "timeout" && o.Verdict.Result != "error") {
				continue
			}
			first := o.Verdict
			r.retry = 3
			r.solve(o)
			r.retry = 0
			if o.Verdict.Result == "timeout" || o.Verdict.Result == "error" {
				o.Verdict = first
			} else {
				o.Verdict.Retried = true
			}
		}
	}
}

func (r *Runner) solve(o *Obligation) {
	q := o.query("", true)
	to := r.queryTimeout()
	if r.retry > 0 {
		to *= r.retry
	}
	only := r.only
	if o.Canary {
		to = 3
		if len(only) == 0 {
			only = []string{"z3-5"}
		}
	}
	o.Verdict = runSolvers(r.workdir, o.Name, q, to, only)
}

func (r *Runner) checkFuncs(names []string) int {
	if err := r.load(); err != nil {
		fmt.Fprintln(os.Stderr, err)
		return 2
	}
	defer r.cleanup()
	var cts []*FuncContract
	for _, ct := range r.contractsFor("") {
		for _, n := range names {
			if normalizeFuncName(ct.Name) == normalizeFuncName(n) || n == "all" {
				cts = append(cts, ct)
			}
		}
	}
	if len(cts) == 0 {
		fmt.Fprintln(os.Stderr, "no contract found for", names)
		return 2
	}
	t0 := time.Now()
	frs := r.generate(cts, "")
	r.solveAll(frs)
	bad := r.printResults(frs, true)
	fmt.Printf("%d functions, %.1fs\n", len(frs), time.Since(t0).Seconds())
	if bad > 0 {
		return 1
	}
	return 0
}

func (r *Runner) printResults(frs []*FuncResult, all bool) int {
	bad := 0
	for _, fr := range frs {
		if fr.Unsupported != "" {
			fmt.Printf("UNSUPPORTED %s: %s\n", fr.Name, fr.Unsupported)
			bad++
		}
		nOK, nCan, canOK := 0, 0, 0
		for _, o := range fr.Obls {
			if o.Canary {
				nCan++
				if o.Verdict.Result != "unsat" {
					canOK++
				} else if strings.Contains(o.Name, ".body") || strings.Contains(o.Name, "canary.entry") {
					fmt.Printf("  VACUOUS %s (%s): unreachable\n", o.Name, o.Pos)
					bad++
				} else if r.verbose {
					fmt.Printf("  note: %s (%s) is unreachable under the contract\n", o.Name, o.Pos)
				}
				continue
			}
			if o.Verdict.Result == "unsat" {
				nOK++
				if r.verbose {
					fmt.Printf("  ok   %-70s %s %.2fs\n", o.Name, o.Verdict.Solver, o.Verdict.Seconds)
				}
			} else {
				bad++
				fmt.Printf("  FAIL %-70s %s (%s) %s %v\n", o.Name, o.Verdict.Result, o.Pos, o.Src, o.Verdict.All)
			}
		}
		retReach := false
		for _, o := range fr.Obls {
			if o.Canary && strings.Contains(o.Name, "canary.return") && o.Verdict.Result != "unsat" {
				retReach = true
			}
		}
		if !retReach && fr.Unsupported == "" && nCan > 0 {
			fmt.Printf("  VACUOUS %s: no return is reachable\n", fr.Name)
			bad++
		}
		if all {
			fmt.Printf("%-50s %s loops=%d obligations=%d discharged=%d canaries=%d/%d havocs=%d\n", fr.Name, fr.Mode, fr.Loops, len(fr.Obls)-nCan, nOK, canOK, nCan, fr.Havocs)
			for _, n := range fr.Notes {
				fmt.Println("    note:", n)
			}
		}
	}
	return bad
}

func (r *Runner) list() int {
	if err := r.load(); err != nil {
		fmt.Fprintln(os.Stderr, err)
		return 2
	}
	defer r.cleanup()
	for _, ct := range r.contractsFor("") {
		fmt.Printf("%-50s %v\n", ct.Name, ct.Props)
	}
	return 0
}

func (r *Runner) selftest(pos []string) int { return 0 }
