package main

import (
	"fmt"
	"strings"
)

// reindexQuant rewrites a quantified body over bound variable v in which v occurs inside sums "(+ X v)" with a
// single symbolic offset X (a slice offset) so that it quantifies over the absolute cell c = X + v instead:
// "(+ X v)" becomes c and every other occurrence of v becomes "(- c X)". The two formulas are equivalent
// (c ranges over all integers, as v does); the rewritten one lets the solvers' pattern matching instantiate the
// quantifier at any cell term of the array, whatever slice the term was written through.
func reindexQuant(v, body string, fc *FnCtx) (newVar, newBody string, ok bool) {
	// collect the X of every "(+ X v)" occurrence
	needle := " " + v + ")"
	offsets := map[string]bool{}
	for i := 0; i+len(needle) <= len(body); i++ {
		if body[i:i+len(needle)] != needle {
			continue
		}
		// walk back to the matching "(+ "
		j := i - 1
		depth := 0
		for j >= 0 {
			if body[j] == ')' {
				depth++
			} else if body[j] == '(' {
				if depth == 0 {
					break
				}
				depth--
			}
			j--
		}
		if j < 0 || !strings.HasPrefix(body[j:], "(+ ") {
			continue
		}
		x := strings.TrimSpace(body[j+3 : i])
		if x == "" || x == v || strings.Contains(x, v) {
			continue
		}
		// X must be a single term: balanced and without top-level spaces
		if !singleTerm(x) {
			continue
		}
		offsets[x] = true
	}
	if len(offsets) != 1 {
		return "", "", false
	}
	var X string
	for k := range offsets {
		X = k
	}
	if X == "0" {
		return "", "", false
	}
	fc.nfr++
	c := fmt.Sprintf("c!%d", fc.nfr)
	nb := strings.ReplaceAll(body, "(+ "+X+" "+v+")", c)
	nb = replaceToken(nb, v, "(- "+c+" "+X+")")
	return c, nb, true
}

func singleTerm(x string) bool {
	depth := 0
	for i := 0; i < len(x); i++ {
		switch x[i] {
		case '(':
			depth++
		case ')':
			depth--
			if depth < 0 {
				return false
			}
		case ' ':
			if depth == 0 {
				return false
			}
		}
	}
	return depth == 0
}

func isSymChar(c byte) bool {
	return c >= 'a' && c <= 'z' || c >= 'A' && c <= 'Z' || c >= '0' && c <= '9' || c == '!' || c == '_' || c == '.'
}

// replaceToken replaces whole-symbol occurrences of tok.
func replaceToken(s, tok, repl string) string {
	var sb strings.Builder
	i := 0
	for i < len(s) {
		if strings.HasPrefix(s[i:], tok) {
			before := i == 0 || !isSymChar(s[i-1])
			after := i+len(tok) >= len(s) || !isSymChar(s[i+len(tok)])
			if before && after {
				sb.WriteString(repl)
				i += len(tok)
				continue
			}
		}
		sb.WriteByte(s[i])
		i++
	}
	return sb.String()
}
