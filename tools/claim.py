#!/usr/bin/env python3
"""usage: claim.py <spec.json>
Adds / replaces claims in tools/mkmanifest.py's table (kept in tools/claims.json), not_decided.json entries and
'fixed' lines of known_findings.json from one JSON document:
 {"claims": {"C23": {"category": "proof", "text": "...", "note": "...", "technique": "..."}},
  "not_decided": {"C23": ["..."]}, "fixed": ["fixed: property=... "]}
"""
import json, os, sys

ROOT = os.path.dirname(os.path.dirname(os.path.abspath(__file__)))
spec = json.load(open(sys.argv[1]))
cp = os.path.join(ROOT, "tools", "claims.json")
claims = json.load(open(cp)) if os.path.exists(cp) else {}
claims.update(spec.get("claims", {}))
json.dump(claims, open(cp, "w"), indent=1, sort_keys=True)
ndp = os.path.join(ROOT, "not_decided.json")
nd = json.load(open(ndp))
nd.update(spec.get("not_decided", {}))
json.dump(nd, open(ndp, "w"), indent=1, sort_keys=True)
kp = os.path.join(ROOT, "known_findings.json")
k = json.load(open(kp))
for f in spec.get("fixed", []):
    if f not in k["fixed"]:
        k["fixed"].append(f)
for f in spec.get("findings", []):
    k["findings"] = [x for x in k["findings"] if x["obligation"] != f["obligation"] or x.get("except") != f.get("except")] + [f]
json.dump(k, open(kp, "w"), indent=1)
print("claims:", sorted(claims))
