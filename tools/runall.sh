#!/bin/sh
# runs the quick check of every claimed property (from MANIFEST.json) and prints one summary line each
cd "$(dirname "$0")/.."
for p in $(python3 -c "import json; print(' '.join(c['property_id'] for c in json.load(open('MANIFEST.json'))['checks']))"); do
  out=$(./check $p quick 2>&1); rc=$?
  echo "rc=$rc $(echo "$out" | tail -1 | cut -c1-140)"
  [ $rc -ne 0 ] && echo "$out" | grep "^VIOLATION\|^  obligation\|^  tool" | head -6 | cut -c1-220
done
