#!/bin/sh
# runs the quick check of every claimed property (from MANIFEST.json) and prints one summary line each
cd "$(dirname "$0")/.."
for p in $(python3 -c "import json; print(' '.join(c['property_id'] for c in json.load(open('MANIFEST.json'))['checks']))"); do
  out=$(./check $p quick 2>&1); rc=$?
  echo "rc=$rc $(echo "$out" | tail -1 | cut -c1-140)"
  [ $rc -ne 0 ] && echo "$out" | grep "^VIOLATION\|^  obligation\|^  tool" | head -6 | cut -c1-220
done
# guard against contracts lost by an editing accident: every function listed in the inventory must still be under contract
./bin/gocv list 2>&1 | awk '{print $1}' | sort > /tmp/gocv-inv-now.$$
awk '{print $1}' tools/contract_inventory.txt | sort | comm -23 - /tmp/gocv-inv-now.$$ | sed 's/^/CONTRACT-LOST /'
rm -f /tmp/gocv-inv-now.$$
