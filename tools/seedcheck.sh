#!/bin/sh
# usage: seedcheck.sh <seed-id> <prop> [srcdir]
# Confirms a seeded defect (patch.diff + demo_test.go + meta.json in srcdir, default /tmp/seed-out/<id>) in a scratch copy
# of /repo: it must apply, build, pass the existing root-package tests, make the demo fail, and the demo must pass
# without it. Then runs the property check on the patched copy. Confirmed seeds are stored under /verif/seeded/<id>/.
id="$1"; prop="$2"; src="${3:-/tmp/seed-out/$id}"
export GOFLAGS=-mod=mod GOPROXY=off
cd /verif
d=$(mktemp -d /tmp/gocv-seed-XXXXXX)
./tools/scratch.sh "$d/repo" >/dev/null
pkg=.
grep -q '^package fasthttpproxy' "$src/demo_test.go" && pkg=./fasthttpproxy
grep -q '^package prefork' "$src/demo_test.go" && pkg=./prefork
grep -q '^package stackless' "$src/demo_test.go" && pkg=./stackless
res="id=$id prop=$prop"
cp "$src/demo_test.go" "$d/repo/$pkg/zz_seed_demo_test.go"
clean=$(cd "$d/repo" && go test -count=1 -vet=off -run 'TestSeededDemo' $pkg 2>&1 | tail -1)
case "$clean" in ok*) res="$res demo_on_clean=pass";; *) res="$res demo_on_clean=FAIL";; esac
if ! (cd "$d/repo" && patch -p1 -s < "$src/patch.diff") >/dev/null 2>&1; then echo "$res patch=DOES-NOT-APPLY"; rm -rf "$d"; exit 1; fi
if ! (cd "$d/repo" && go build ./...) >/dev/null 2>&1; then echo "$res build=FAIL"; rm -rf "$d"; exit 1; fi
mut=$(cd "$d/repo" && go test -count=1 -vet=off -run 'TestSeededDemo' $pkg 2>&1 | tail -1)
case "$mut" in ok*) res="$res demo_on_patched=pass(!)";; *) res="$res demo_on_patched=fail";; esac
rm -f "$d/repo/$pkg/zz_seed_demo_test.go"
suite=$(cd "$d/repo" && go test -count=1 -vet=off . $([ "$pkg" != . ] && echo $pkg) 2>&1 | grep -v '^ok' | tail -1); [ -z "$suite" ] && suite=ok
case "$suite" in ok*) res="$res suite=pass";; *) res="$res suite=FAIL";; esac
out=$(./bin/gocv check "$prop" -repo "$d/repo" -out "$d/out" 2>&1)
if echo "$out" | grep -q "^VIOLATION property=$prop"; then
  ob=$(echo "$out" | grep "^  obligation" | head -2 | sed 's/^  obligation //' | cut -c1-110 | tr '\n' ';')
  res="$res check=CAUGHT [$ob]"
else
  res="$res check=MISSED"
fi
echo "$res"
case "$res" in *demo_on_clean=pass*demo_on_patched=fail*suite=pass*)
  mkdir -p "/verif/seeded/$id"; cp "$src/patch.diff" "$src/demo_test.go" "/verif/seeded/$id/"
  python3 - "$src/meta.json" "/verif/seeded/$id/meta.json" "$res" <<'PY'
import json,sys
m=json.load(open(sys.argv[1])); m['confirmed']=sys.argv[3]
m['ran']=["scratch copy of /repo", "go build ./...", "go test -count=1 -vet=off . (existing suite)", "demo test with and without the patch", "gocv check on the patched copy"]
json.dump(m,open(sys.argv[2],'w'),indent=1)
PY
;; esac
rm -rf "$d"
