#!/bin/sh
# usage: scratch.sh <dir>   -- makes a scratch copy of /repo's working tree (tracked files + contract files) in <dir>
set -e
rm -rf "$1"; mkdir -p "$1"
cd /repo
(git ls-files; ls zz_contracts_*_verif.go */zz_contracts_*_verif.go 2>/dev/null) | sort -u | while read f; do [ -f "$f" ] && cp --parents "$f" "$1"/; done
