#!/bin/sh
# usage: mkmutant.sh <prop>__<name> "<expect substring>" <file> <python-replace-old> <python-replace-new>
set -e
name="$1"; expect="$2"; file="$3"; old="$4"; new="$5"
d=$(mktemp -d /tmp/gocv-mk-XXXXXX)
mkdir -p "$d/a/$(dirname "$file")" "$d/b/$(dirname "$file")"
cp "/repo/$file" "$d/a/$file"; cp "/repo/$file" "$d/b/$file"
OLD="$old" NEW="$new" python3 - "$d/b/$file" <<'PY'
import os,sys
p=sys.argv[1]; s=open(p).read(); old=os.environ['OLD']; new=os.environ['NEW']
assert s.count(old)==1, "old text occurs %d times"%s.count(old)
open(p,'w').write(s.replace(old,new))
PY
(echo "# expect: $expect"; cd "$d" && diff -u "a/$file" "b/$file") > "/verif/selftest/mutants/$name.patch" || true
rm -rf "$d"
echo "wrote selftest/mutants/$name.patch"
