#!/usr/bin/env python3
"""Regenerates /verif/MANIFEST.json from the table below (run after changing which properties are claimed)."""
import json, os, subprocess

ROOT = os.path.dirname(os.path.dirname(os.path.abspath(__file__)))

# property id -> (level category, level text, level note, technique, design section)
CLAIMED = {k: (v["category"], v["text"], v["note"], v["technique"]) for k, v in json.load(open(os.path.join(ROOT, "tools", "claims.json"))).items()}

NOT_APPLICABLE = {
    "C15": "Graceful shutdown is a statement about all interleavings of Shutdown with in-flight goroutines and about eventual completion; no sequential contract carries it.",
    "C16": "Non-interference between a still-running handler goroutine and the serve loop; contracts over one function at a time cannot speak about a second thread's writes.",
    "C33": "In-memory pipes and listener are channel-based concurrent objects; the property is linearizability of byte streams under all interleavings.",
    "C36": "The oracle is the behaviour of net/http's server for arbitrary handler programs, an external implementation with no specification to state as a contract.",
    "C37": "Data-race freedom over all documented concurrent uses is a whole-program schedule property, outside sequential contracts.",
    "C38": "Deadlines and queue bounds of PipelineClient are timing/liveness properties of goroutines communicating over channels.",
}

NOT_BUILT = "contracts for this property are not built yet in this round (planned in DESIGN.md section 5); not claimed until its check exists and passes"


def main():
    props = [json.loads(l) for l in open(os.path.join(ROOT, "properties.jsonl"))]
    checks = []
    na = []
    for p in props:
        pid = p["id"]
        if pid in CLAIMED:
            cat, text, note, tech = CLAIMED[pid]
            checks.append({
                "property_id": pid,
                "quick_cmd": f"./check {pid} quick",
                "thorough_cmd": f"./check {pid} thorough",
                "evidence_file": f"/verif/evidence/{pid}.json",
                "replay_cmd_template": "cat {path}",
                "engine": "gocv",
                "level_claimed": {"category": cat, "text": text, "design_ref": f"DESIGN.md section 5, {pid}"},
                "level_note": note,
                "technique": tech,
            })
        elif pid in NOT_APPLICABLE:
            na.append({"property_id": pid, "reason": NOT_APPLICABLE[pid]})
        else:
            na.append({"property_id": pid, "reason": NOT_BUILT})
    hooks_commits = subprocess.run(["git", "-C", "/repo", "log", "--format=%H %s"], capture_output=True, text=True).stdout.splitlines()
    src = [l.split()[0] for l in hooks_commits if "verif hooks" in l]
    m = {
        "version": 1,
        "setup_cmd": "cd /verif/gocv && GOFLAGS=-mod=mod GOPROXY=off go build -o /verif/bin/gocv ./cmd/gocv",
        "hooks": {
            "guard": "verif",
            "enable": "contracts are comment-only files zz_contracts_*_verif.go behind //go:build verif; gocv reads them as text, nothing is compiled in",
            "baseline_off_cmd": "cd /repo && go test -mod=mod -json -vet=off -count=1 -timeout 25m ./...",
            "source_commits": src,
            "add_only": True,
        },
        "engines": [{
            "name": "gocv",
            "path": "/verif/gocv",
            "serves_properties": sorted(CLAIMED),
            "kind_free_text": "verification-condition generator for Go (go/ast + go/types) with contracts as structured comments; obligations discharged by z3 4.8.12 / z3 5.1.0 / cvc5 1.0.3; counterexamples replayed on the real code with go test -overlay",
        }],
        "checks": checks,
        "not_applicable": na,
        "notes": "See DESIGN.md. Known findings: /verif/known_findings.json. Must-fail corpus: /verif/selftest.",
    }
    with open(os.path.join(ROOT, "MANIFEST.json"), "w") as f:
        json.dump(m, f, indent=1)
        f.write("\n")
    print("claimed:", len(checks), "not_applicable:", len(na))


if __name__ == "__main__":
    main()
