#!/usr/bin/env python3
"""Regenerates /verif/MANIFEST.json from the table below (run after changing which properties are claimed)."""
import json, os, subprocess

ROOT = os.path.dirname(os.path.dirname(os.path.abspath(__file__)))

# property id -> (level category, level text, level note, technique, design section)
CLAIMED = {
    "C24": ("proof",
            "Contract proof over the real AST of ParseByteRange: every accepted range satisfies 0 <= start <= end < length, "
            "for all byte strings and lengths; callee ParseUint used through its own proved contract.",
            "Trusts the gocv VC generator, the SMT solvers and the library contracts of bytes.HasPrefix/IndexByte; "
            "handleRequest status/Content-Range wiring is not yet under contract (see evidence.not_decided).",
            "deductive verification: weakest-precondition VCs from go/ast+go/types, discharged by z3/cvc5"),
    "C30": ("proof",
            "Contract proof of parseUintBuf and ParseUint against the spec function decval for both 64-bit and 32-bit int "
            "(wrap-around arithmetic modelled exactly): accepted strings are exactly digit strings whose value fits, the value is exact, never wrapped.",
            "Trusts the VC generator, the solvers; 32-bit view obtained by type-checking the tree with GOARCH=386; "
            "monotonicity of decimal value under appending digits is a stated arithmetic fact.",
            "deductive verification: loop invariants over a recursive spec function (fuel-bounded unfolding), z3/cvc5"),

    "C02": ("proof",
            "Skeleton-mode contract proof over the real serveConnCounted: a ghost flag tracks whether bytes of the current framed body may remain on the wire; "
            "the loop invariant says it is false whenever the next request head is read, on every path (streamed bodies, rejected Expect: 100-continue, errors).",
            "Trusts the ghost effects declared for callees (listed in the evidence), the VC generator and the solvers; byte-exact consumption by the body readers is assumed here.",
            "deductive verification in skeleton mode: exact control flow + scalar locals, declared ghost effects for callees, loop invariant discharged by z3/cvc5"),
    "C10": ("proof",
            "Contract proof over serveConnCounted, ServeConn and workerFunc: the response carries Connection: close exactly when connectionClose is set, every listed reason sets it, "
            "the loop never continues after a close was sent, HTTP/1.0 keep-alive responses get the header, and callers close the connection unless it was hijacked.",
            "Trusts declared ghost effects of callees, the VC generator, the solvers; client side and header byte format not decided.",
            "deductive verification in skeleton mode with ghost state for what was sent"),
    "C11": ("proof",
            "Contract proof over serveConnCounted: a response is only written for a request whose handler ran or that was itself rejected; per-request decisions are reset each iteration; "
            "Request.Reset and Response.Reset are reached on every path back to the loop head.",
            "Trusts declared ghost effects of callees; what the Reset methods reset is not under contract yet.",
            "deductive verification in skeleton mode: loop invariants over ghost dirty flags"),
    "C14": ("proof",
            "Contract proof that every ConnState call in serveConnCounted, ServeConn and workerFunc is a legal transition of the documented state machine, StateNew comes first, "
            "exactly one terminal state follows, and StateActive is only reported after a byte was seen (one recorded known finding).",
            "Trusts declared ghost effects (bufio.Reader.Peek, acquireByteReader); cross-goroutine hand-off not decided.",
            "deductive verification in skeleton mode: ghost state machine, precondition at each hook call"),
    "C17": ("proof",
            "Contract proof over serveConnCounted, ServeConn and hijackConnHandler: the response is written and flushed before the hijack goroutine starts, reader/writer are handed over (not released), "
            "the server reports errHijacked only when the handler was started, the connection is closed after the handler unless KeepHijackedConns, the ctx is released once.",
            "Trusts declared ghost effects; the doc-stated exception (no hijack when Connection: close) is part of the contract.",
            "deductive verification in skeleton mode: ghost flags wrote/flushed/hijackStarted"),
    "C32": ("proof",
            "All eight lookup tables (read from the constants of the current tree) equal their defining predicates for every byte value (ground instances, exhaustive); "
            "normalizeHeaderKeyValidated equals the positional canonical-form spec for all inputs.",
            "Predicates written from RFC 3986 2.3 / RFC 9110 tchar, field-vchar; agreement with net/textproto and html is external.",
            "deductive verification: exhaustive ground lemma + quantified loop invariant"),
    "C35": ("proof",
            "Skeleton contract proof over serveConnCounted: a ghost flag 'multipart temp files may exist' is cleared by Request.Reset/releaseCtx on every path before the next request head is read and before return (hijack/timeout excepted).",
            "Trusts that Request.Reset removes multipart files (ResetBody -> RemoveMultipartFormFiles, mime/multipart external); round trip not decided.",
            "deductive verification in skeleton mode: loop invariant over a ghost flag"),

    "C04": ("proof",
            "Skeleton contract proof over transport.RoundTrip and the closer of a streamed response body: a connection is returned to the pool only after the response was read completely "
            "(ReadLimitBody succeeded, or the stream was read to the end of its framing) and every acquired connection is released or closed exactly once.",
            "Sequential mechanism only: PipelineClient queues and all concurrency/timeout interleavings are not decided. Trusts declared ghost effects of callees.",
            "deductive verification in skeleton mode: preconditions at ReleaseConn over ghost state"),
    "C19": ("proof",
            "Skeleton contract proof over HostClient.Do, doNonNilReqResp, transport.RoundTrip and isIdempotent: ghost counter of transmissions bounded by MaxIdemponentCallAttempts (default 5), "
            "at most one transmission for body streams and for non-idempotent methods without retry callbacks, no retry after ErrBodyTooLarge, no transmission after the deadline, deadline moved only on resetTimeout.",
            "Assumes c.do does not change the request method or body-stream status; the retry callbacks are arbitrary.",
            "deductive verification in skeleton mode: loop invariant sent == attempts"),
    "C20": ("proof",
            "Contract proof over doRequestFollowRedirects (ghost: credentials present / target trusted / transmissions), stripSensitiveHeadersOnRedirect (all six headers deleted), "
            "shouldStripSensitiveHeadersOnRedirect and the exact-mode isDomainOrSubdomainBytes (same host or '.'+parent suffix only, never IP literals), 303 and 301/302 method rules.",
            "bytes.EqualFold is specified for ASCII only; that the host checked is the host dialled rests on URI serialisation (C27, not decided).",
            "deductive verification: skeleton ghost invariant + exact contract of the domain test"),
    "C21": ("proof",
            "Skeleton contract proof over Client.Do, Client.hostClient, HostClient.doNonNilReqResp, dialHostHard and dialAddr: the transport is reached only when IsTLS equals 'scheme is https', "
            "the host-client map and the new HostClient are chosen by that flag, TLS dials return a crypto/tls-wrapped connection using the config cached for the dialled address.",
            "A custom dialer's connection with a Handshake() method is taken to be TLS (documented convention); ConfigureClient callbacks may change IsTLS, which is why the check in doNonNilReqResp carries the property.",
            "deductive verification in skeleton mode: preconditions at the transport / dial calls"),

    "C05": ("proof",
            "Exact-mode contract proofs: removeNewLines / normalizeHeaderKey leave no CR or LF for every input; a type-invariant sweep enumerates, from the current source, every method of RequestHeader / "
            "ResponseHeader / header that assigns a directly stored field and proves the field CR/LF-free afterwards; every setter that reaches the multi-valued storage layer is proved to pass it CR/LF-free key and value.",
            "The []argsKV storage functions and setSpecialHeader are trusted contracts (bodies not verified, modifies lists read off the code); serialisation (AppendBytes) writing the stored fields verbatim, "
            "trailers and fasthttpproxy are not decided yet; SetCanonical assumes its documented precondition (canonical, hence clean, key).",
            "deductive verification: quantified loop invariants over a byte-region heap, type-invariant sweep, call-site preconditions"),
}

NOT_APPLICABLE = {
    "C15": "Graceful shutdown is a statement about all interleavings of Shutdown with in-flight goroutines and about eventual completion; no sequential contract carries it.",
    "C16": "Non-interference between a still-running handler goroutine and the serve loop; contracts over one function at a time cannot speak about a second thread's writes.",
    "C33": "In-memory pipes and listener are channel-based concurrent objects; the property is linearizability of byte streams under all interleavings.",
    "C36": "The oracle is the behaviour of net/http's server for arbitrary handler programs, an external implementation with no specification to state as a contract.",
    "C37": "Data-race freedom over all documented concurrent uses is a whole-program schedule property, outside sequential contracts.",
    "C38": "Deadlines and queue bounds of PipelineClient are timing/liveness properties of goroutines communicating over channels.",
}

NOT_BUILT = "contracts for this property are not built yet in this round (planned in DESIGN.md section 5); not claimed until its check exists and passes"


def main():
    props = [json.loads(l) for l in open(os.path.join(ROOT, "properties.jsonl"))]
    checks = []
    na = []
    for p in props:
        pid = p["id"]
        if pid in CLAIMED:
            cat, text, note, tech = CLAIMED[pid]
            checks.append({
                "property_id": pid,
                "quick_cmd": f"./check {pid} quick",
                "thorough_cmd": f"./check {pid} thorough",
                "evidence_file": f"/verif/evidence/{pid}.json",
                "replay_cmd_template": "cat {path}",
                "engine": "gocv",
                "level_claimed": {"category": cat, "text": text, "design_ref": f"DESIGN.md section 5, {pid}"},
                "level_note": note,
                "technique": tech,
            })
        elif pid in NOT_APPLICABLE:
            na.append({"property_id": pid, "reason": NOT_APPLICABLE[pid]})
        else:
            na.append({"property_id": pid, "reason": NOT_BUILT})
    hooks_commits = subprocess.run(["git", "-C", "/repo", "log", "--format=%H %s"], capture_output=True, text=True).stdout.splitlines()
    src = [l.split()[0] for l in hooks_commits if "verif hooks" in l]
    m = {
        "version": 1,
        "setup_cmd": "cd /verif/gocv && GOFLAGS=-mod=mod GOPROXY=off go build -o /verif/bin/gocv ./cmd/gocv",
        "hooks": {
            "guard": "verif",
            "enable": "contracts are comment-only files zz_contracts_*_verif.go behind //go:build verif; gocv reads them as text, nothing is compiled in",
            "baseline_off_cmd": "cd /repo && go test -mod=mod -json -vet=off -count=1 -timeout 25m ./...",
            "source_commits": src,
            "add_only": True,
        },
        "engines": [{
            "name": "gocv",
            "path": "/verif/gocv",
            "serves_properties": sorted(CLAIMED),
            "kind_free_text": "verification-condition generator for Go (go/ast + go/types) with contracts as structured comments; obligations discharged by z3 4.8.12 / z3 5.1.0 / cvc5 1.0.3; counterexamples replayed on the real code with go test -overlay",
        }],
        "checks": checks,
        "not_applicable": na,
        "notes": "See DESIGN.md. Known findings: /verif/known_findings.json. Must-fail corpus: /verif/selftest.",
    }
    with open(os.path.join(ROOT, "MANIFEST.json"), "w") as f:
        json.dump(m, f, indent=1)
        f.write("\n")
    print("claimed:", len(checks), "not_applicable:", len(na))


if __name__ == "__main__":
    main()
