#!/bin/sh
# Must-fail corpus: every patch under selftest/mutants/<prop>__<name>.patch is applied to a scratch copy of
# /repo (outside /repo and /verif); the check of <prop> must then report a VIOLATION naming the obligation
# given on the first line of the patch ("# expect: <substring of obligation name>").
# usage: selftest/run.sh [pattern]
cd "$(dirname "$0")/.."
export GOFLAGS=-mod=mod GOPROXY=off
pat="${1:-}"
ok=0; bad=0
for p in selftest/mutants/*${pat}*.patch; do
  [ -f "$p" ] || continue
  base=$(basename "$p" .patch); prop=${base%%__*}
  expect=$(sed -n 's/^# expect: //p' "$p" | head -1)
  d=$(mktemp -d /tmp/gocv-mut-XXXXXX)
  ./tools/scratch.sh "$d/repo" >/dev/null
  if ! (cd "$d/repo" && patch -p1 -s < "$OLDPWD/$p") >/dev/null 2>&1; then
    echo "SELFTEST-ERROR $base: patch does not apply"; bad=$((bad+1)); rm -rf "$d"; continue
  fi
  if ! (cd "$d/repo" && go build ./... ) >/dev/null 2>&1; then
    echo "SELFTEST-ERROR $base: mutant does not compile"; bad=$((bad+1)); rm -rf "$d"; continue
  fi
  out=$(./bin/gocv check "$prop" -repo "$d/repo" -out "$d/out" 2>&1)
  if echo "$out" | grep -q "^VIOLATION property=$prop" && echo "$out" | grep -q -- "$expect"; then
    echo "caught   $base  ($expect)"; ok=$((ok+1))
  else
    echo "MISSED   $base  (expected $expect)"; echo "$out" | tail -3 | sed 's/^/    /'; bad=$((bad+1))
  fi
  rm -rf "$d"
done
# seeded defects written by independent sub-agents (patch.diff + meta.json under /verif/seeded/<id>/)
for sd in seeded/*${pat}*/; do
  [ -f "$sd/patch.diff" ] || continue
  id=$(basename "$sd"); prop=$(python3 -c "import json,sys; print(json.load(open(sys.argv[1]))['property'])" "$sd/meta.json")
  d=$(mktemp -d /tmp/gocv-mut-XXXXXX)
  ./tools/scratch.sh "$d/repo" >/dev/null
  if ! (cd "$d/repo" && patch -p1 -s < "$OLDPWD/$sd/patch.diff") >/dev/null 2>&1; then
    echo "SELFTEST-ERROR seeded/$id: patch does not apply"; bad=$((bad+1)); rm -rf "$d"; continue
  fi
  out=$(./bin/gocv check "$prop" -repo "$d/repo" -out "$d/out" 2>&1)
  if echo "$out" | grep -q "^VIOLATION property=$prop"; then
    by=$(echo "$out" | sed -n 's/^  obligation \([^ ]*\) .*/\1/p; s/^  tool error: \(.*\)/tool-error: \1/p' | sort -u | head -3 | tr '\n' ' ')
    echo "caught   seeded/$id ($prop) by $by"; ok=$((ok+1))
  elif [ -f "$sd/EXPECTED-MISS" ]; then
    echo "expected-miss seeded/$id ($prop): $(head -1 $sd/EXPECTED-MISS)"
  else
    echo "MISSED   seeded/$id ($prop)"; bad=$((bad+1))
  fi
  rm -rf "$d"
done
echo "selftest: $ok caught, $bad missed/errors"
[ "$bad" -eq 0 ]
